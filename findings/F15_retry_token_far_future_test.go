package quic

import (
	"net/netip"
	"testing"
	"time"
)

// A token whose timestamp lies more than ~292 years after "now" is accepted: now.Sub(when)
// saturates at the minimum Duration, abs() of it overflows back to the (negative) minimum, and
// the check `d > retryTokenValidityPeriod` is false.
func TestVerifC31FarFutureTokenAccepted(t *testing.T) {
	var rs retryState
	if err := rs.init(); err != nil {
		t.Fatal(err)
	}
	addr := netip.MustParseAddrPort("127.0.0.1:443")
	src := []byte{1, 2, 3, 4}
	orig := []byte{5, 6, 7, 8}
	now := time.Date(2024, 1, 1, 0, 0, 0, 0, time.UTC)
	issued := now.Add(1<<63 - 1).Add(1<<63 - 1) // about 584 years later
	token, newDst, err := rs.makeToken(issued, src, orig, addr)
	if err != nil {
		t.Fatal(err)
	}
	if _, ok := rs.validateToken(now, token, src, newDst, addr); ok {
		t.Fatalf("token issued at %v accepted at %v (validity period %v)", issued, now, retryTokenValidityPeriod)
	}
	// control: 6 seconds apart is rejected
	token, newDst, _ = rs.makeToken(now.Add(6*time.Second), src, orig, addr)
	if _, ok := rs.validateToken(now, token, src, newDst, addr); ok {
		t.Fatalf("control: token from 6s in the future accepted")
	}
}

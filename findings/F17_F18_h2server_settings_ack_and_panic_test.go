// In-package demonstrations for the C15 report (not part of the contracts).

package http2

import (
	"bufio"
	"bytes"
	"net/http"
	"testing"

	"golang.org/x/net/http2/hpack"
)

func verifTestConn(out *bytes.Buffer) *serverConn {
	sc := &serverConn{
		srv:          &Server{},
		hs:           &http.Server{},
		streams:      make(map[uint32]*stream),
		writeSched:   newRoundRobinWriteScheduler(),
		hpackEncoder: hpack.NewEncoder(&bytes.Buffer{}),
		framer:       NewFramer(out, nil),
		bw:           newBufferedWriter(nil, 0),
		wroteFrameCh: make(chan frameWriteResult, 1),
		serveG:       newGoroutineLock(),
		advMaxStreams: 100,
	}
	return sc
}

// Two SETTINGS frames that arrive while a frame write is in flight are answered by ONE
// SETTINGS ACK (needToSendSettingsAck is a boolean): "acknowledges every SETTINGS frame" fails.
func TestVerifSettingsAckCoalesced(t *testing.T) {
	var out bytes.Buffer
	sc := verifTestConn(&out)
	// a frame write is in flight (as after startFrameWrite)
	inflight := FrameWriteRequest{write: flushFrameWriter{}}
	sc.writingFrame = true
	settings := &SettingsFrame{FrameHeader: FrameHeader{valid: true, Type: FrameSettings}}
	if err := sc.processSettings(settings); err != nil {
		t.Fatal(err)
	}
	if err := sc.processSettings(settings); err != nil {
		t.Fatal(err)
	}
	// the write completes; the scheduler now sends what is pending
	sc.wroteFrame(frameWriteResult{wr: inflight})
	fr := NewFramer(nil, &out)
	acks := 0
	for {
		f, err := fr.ReadFrame()
		if err != nil {
			break
		}
		if sf, ok := f.(*SettingsFrame); ok && sf.IsAck() {
			acks++
		}
	}
	if acks != 2 {
		t.Errorf("2 SETTINGS frames received, %d SETTINGS ACK sent", acks)
	}
}

// A handler-panic RST_STREAM is being written asynchronously when the peer's RST_STREAM for the same
// stream is processed; when the write completes, wroteFrame calls closeStream on the already closed
// stream and the serve goroutine panics ("invariant; can't close stream in state closed").
func TestVerifHandlerPanicRSTAfterPeerReset(t *testing.T) {
	var out bytes.Buffer
	sc := verifTestConn(&out)
	// almost full write buffer: the 13-byte RST_STREAM does not "stay within buffer" -> async write
	sc.bw.bw = bufio.NewWriterSize(&out, 16)
	sc.bw.bw.Write(make([]byte, 8))
	st := &stream{sc: sc, id: 1, state: stateHalfClosedRemote, cancelCtx: func() {}}
	st.cw.Init()
	sc.streams[1] = st
	sc.curClientStreams = 1
	sc.maxClientStreamID = 1
	sc.writeSched.OpenStream(1, OpenStreamOptions{})
	// the handler panicked: runHandler asks for a reset of its stream
	sc.writeFrame(FrameWriteRequest{write: handlerPanicRST{1}, stream: st})
	if !sc.writingFrameAsync {
		t.Fatal("setup: expected the asynchronous write path")
	}
	// meanwhile the peer resets the stream
	if err := sc.processResetStream(&RSTStreamFrame{FrameHeader: FrameHeader{valid: true, Type: FrameRSTStream, StreamID: 1}, ErrCode: ErrCodeCancel}); err != nil {
		t.Fatal(err)
	}
	if st.state != stateClosed || sc.curClientStreams != 0 {
		t.Fatalf("setup: stream not closed by the peer's RST_STREAM")
	}
	res := <-sc.wroteFrameCh // the asynchronous write has finished
	defer func() {
		if e := recover(); e != nil {
			t.Errorf("serve goroutine panics in wroteFrame: %v", e)
		}
	}()
	sc.wroteFrame(res)
}

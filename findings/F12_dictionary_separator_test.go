// Demonstration of finding F12 (property C56), against the real code: copy into
// /repo/internal/httpsfv and run  go test -run TestF12 .
// Before the fix (internal/httpsfv: require a comma between dictionary members) ParseDictionary
// accepted members separated by whitespace only, or by nothing at all.
package httpsfv

import "testing"

func TestF12DictionaryMembersNeedComma(t *testing.T) {
	for _, s := range []string{"a=1 b=2", "a=1b=2", "a b", "a=(1 2) b=3"} {
		if ParseDictionary(s, nil) {
			t.Errorf("ParseDictionary(%q) = true; RFC 9651 section 4.2.2 requires failure", s)
		}
	}
	for _, s := range []string{"a=1,b=2", "a=1, b=2", "a=1 ,b=2", "a, b"} {
		if !ParseDictionary(s, nil) {
			t.Errorf("ParseDictionary(%q) = false, want true", s)
		}
	}
}

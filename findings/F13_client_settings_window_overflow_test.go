package http2

import (
	"bytes"
	"encoding/binary"
	"sync"
	"testing"

	"golang.org/x/net/http2/hpack"
)

// RFC 9113 6.9.2: "An endpoint MUST treat a change to SETTINGS_INITIAL_WINDOW_SIZE that causes any
// flow-control window to exceed the maximum size as a connection error of type FLOW_CONTROL_ERROR."
// The client ignores the refusal of outflow.add: no error, and the stream window silently keeps
// its old value (smaller than the server's view, so no DATA overrun, but the violation goes
// unreported and the two endpoints disagree about the window from then on).
func TestVerifClientSettingsInitialWindowOverflowIgnored(t *testing.T) {
	cc := &ClientConn{
		streams:           map[uint32]*clientStream{},
		initialWindowSize: 65535,
		maxFrameSize:      16384,
		nextStreamID:      3,
		seenSettings:      true,
		seenSettingsChan:  make(chan struct{}),
	}
	cc.cond = sync.NewCond(&cc.mu)
	cc.henc = hpack.NewEncoder(new(bytes.Buffer))
	cs := &clientStream{cc: cc, ID: 1}
	cs.flow.setConnFlow(&cc.flow)
	cs.flow.add(1<<31 - 1 - 10) // 65535 initially, then WINDOW_UPDATEs up to 2^31-11: legal
	cc.streams[1] = cs

	p := make([]byte, 6)
	binary.BigEndian.PutUint16(p[0:2], uint16(SettingInitialWindowSize))
	binary.BigEndian.PutUint32(p[2:6], 0x40000000) // legal value; delta = 0x40000000-65535 overflows the stream window
	f := &SettingsFrame{FrameHeader: FrameHeader{valid: true, Type: FrameSettings, Length: 6}, p: p}

	rl := &clientConnReadLoop{cc: cc}
	before := cs.flow.n
	err := rl.processSettingsNoWrite(f)
	t.Logf("err=%v window before=%d after=%d initialWindowSize=%d", err, before, cs.flow.n, cc.initialWindowSize)
	if err == nil {
		t.Errorf("processSettingsNoWrite returned nil: window %d + delta %d exceeds 2^31-1, want ConnectionError(FLOW_CONTROL_ERROR)", before, int64(0x40000000)-65535)
	}
}

// F4 (property C24): rangeset.sub(x, x) with x strictly inside a range split the range into two
// adjacent ranges [a,x) [x,b): the set of integers is unchanged but the representation is no longer
// non-adjacent, and isrange/numRanges answer wrongly. Found by obligation
// quic.lemmaRangesetSubBounded#lemma.1 (model start=end=8, one range containing 8).
// Run against the real code (before the "fix:" commit this test fails):
//   cp F4_rangeset_sub_empty_test.go /repo/quic/zz_f4_test.go && (cd /repo && go test ./quic -run TestF4); rm /repo/quic/zz_f4_test.go
package quic

import "testing"

func TestF4RangesetSubEmpty(t *testing.T) {
	var s rangeset[int64]
	s.add(0, 10)
	s.sub(5, 5)
	if !s.isrange(0, 10) || s.numRanges() != 1 {
		t.Fatalf("after add(0,10); sub(5,5): ranges = %v, want the single range [0,10)", s)
	}
}

package http2

import (
	"bytes"
	"testing"
)

// C06 taken literally: WriteSettings accepts the arguments (no error, AllowIllegalWrites off),
// but ReadFrame refuses the frame it wrote.
func TestFindingWriteSettingsNotReadBack(t *testing.T) {
	var buf bytes.Buffer
	fr := NewFramer(&buf, &buf)
	if err := fr.WriteSettings(Setting{ID: SettingInitialWindowSize, Val: 1 << 31}); err != nil {
		t.Fatalf("WriteSettings refused: %v", err)
	}
	f, err := fr.ReadFrame()
	if err == nil {
		t.Fatalf("read back fine: %v", f)
	}
	t.Logf("WriteSettings accepted, ReadFrame: %v (frame %v)", err, f)
	if err != ConnectionError(ErrCodeFlowControl) {
		t.Fatalf("unexpected error %v", err)
	}
}

// Observation (outside C07: hand-built header): ReadFrameForHeader with a SETTINGS header that did
// not come from ReadFrameHeader panics in SettingsFrame.Value -> checkValid.
func TestObservationReadFrameForHeaderPanics(t *testing.T) {
	defer func() {
		if r := recover(); r == nil {
			t.Fatalf("no panic")
		} else {
			t.Logf("panic: %v", r)
		}
	}()
	var buf bytes.Buffer
	fr := NewFramer(&buf, &buf)
	fr.ReadFrameForHeader(FrameHeader{Type: FrameSettings, Length: 0})
}

//go:build !(go1.27 && !http2legacy)

package http2

import "testing"

// Demonstration of finding F1 (property C12): after CloseStream the RFC 7540 priority scheduler
// must not hand out requests of the closed stream, and Pop must never return an empty request.
func TestVerifF1CloseStreamLeavesNoFrames(t *testing.T) {
	ws := NewPriorityWriteScheduler(nil).(*priorityWriteSchedulerRFC7540)
	ws.OpenStream(1, OpenStreamOptions{})
	ws.Push(makeWriteHeadersRequest(1))
	ws.Push(makeWriteHeadersRequest(1))
	ws.CloseStream(1)
	for i := 0; i < 4; i++ {
		wr, ok := ws.Pop()
		if !ok {
			return
		}
		if wr.write == nil {
			t.Fatalf("Pop #%d after CloseStream returned ok=true with an empty request (write == nil)", i+1)
		}
		t.Fatalf("Pop #%d after CloseStream returned a frame of the closed stream: %v", i+1, wr)
	}
}

package http3

import (
	"encoding/binary"
	"io"
	"testing"
	"testing/synctest"
)

// F-A: HEADERS frame claiming a huge length + string literal with huge length => makeslice panic.
func TestFindingHugeStringLen(t *testing.T) {
	synctest.Test(t, func(t *testing.T) {
	st1, st2 := newStreamPair(t)
	st1.writeVarint(int64(frameTypeHeaders))
	st1.writeVarint(1<<62 - 1)
	enc := []byte{0x00, 0x00, 0x27}
	enc = binary.AppendUvarint(enc, 1<<50)
	st1.Write(enc)
	st1.Flush()
	ftype, err := st2.readFrameHeader()
	if err != nil || ftype != frameTypeHeaders {
		t.Fatalf("readFrameHeader: %v %v", ftype, err)
	}
	defer func() {
		if r := recover(); r != nil {
			t.Logf("PANIC CONFIRMED: %v", r)
		} else {
			t.Errorf("no panic")
		}
	}()
	var dec qpackDecoder
	err = dec.decode(st2, func(itype indexType, name, value string) error { return nil })
	t.Logf("decode returned %v", err)
	})
}

// F-B: trailers (HEADERS after body) whose field section over-reads the frame => st.stream = nil,
// then bodyReader.Close dereferences the nil *quic.Stream.
func TestFindingCloseAfterOverread(t *testing.T) {
	synctest.Test(t, func(t *testing.T) {
	st1, st2 := newStreamPair(t)
	st1.writeVarint(int64(frameTypeHeaders))
	st1.writeVarint(1) // frame holds one byte: only the Required Insert Count
	st1.Write([]byte{0x00, 0x00})
	st1.Flush()
	r := &bodyReader{st: st2, remain: -1}
	_, err := r.Read(make([]byte, 10))
	t.Logf("Read returned %v; st.stream == nil: %v", err, st2.stream == nil)
	if err == nil || err == io.EOF {
		t.Fatalf("expected error")
	}
	defer func() {
		if r := recover(); r != nil {
			t.Logf("PANIC CONFIRMED: %v", r)
		} else {
			t.Errorf("no panic")
		}
	}()
	r.Close()
	})
}

package http2_test

import (
	"net/http"
	. "golang.org/x/net/http2"
	"testing"
	"testing/synctest"
)

func TestVerifF7OverContentLengthRefund(t *testing.T) {
	synctestTest(t, func(t testing.TB) {
		tc := newTestClientConn(t)
		tc.greet()
		req, _ := http.NewRequest("GET", "https://dummy.tld/", nil)
		rt := tc.roundTrip(req)
		tc.wantFrameType(FrameHeaders)
		tc.writeHeaders(HeadersFrameParam{
			StreamID:   rt.streamID(),
			EndHeaders: true,
			EndStream:  false,
			BlockFragment: tc.makeHeaderBlockFragment(
				":status", "200",
				"content-length", "5",
			),
		})
		initialInflow := tc.inflowWindow(0)
		tc.writeData(rt.streamID(), false, make([]byte, 5000))
		res := rt.response()
		n, err := res.Body.Read(make([]byte, 8000))
		t.Logf("read = %v, %v", n, err)
		res.Body.Close()
		synctest.Wait()
		for tc.readFrame() != nil {
		}
		synctest.Wait()
		if got := tc.inflowWindow(0); got != initialInflow {
			t.Fatalf("connection inflow window after over-long response = %v, want %v (leaked %v bytes)", got, initialInflow, initialInflow-got)
		}
	})
}

package webdav

import (
	"context"
	"net/http/httptest"
	"os"
	"testing"
)

func TestF2CopyOntoEquivalentDestinationDestroysSource(t *testing.T) {
	ctx := context.Background()
	fs := NewMemFS()
	fs.Mkdir(ctx, "/a", 0777)
	f, _ := fs.OpenFile(ctx, "/a/f", os.O_RDWR|os.O_CREATE, 0666)
	f.Write([]byte("payload"))
	f.Close()
	h := &Handler{FileSystem: fs, LockSystem: NewMemLS()}
	for _, dest := range []string{"/a/", "/a/.", "//a", "/a/b/.."} {
		req := httptest.NewRequest("COPY", "/a", nil)
		req.Header.Set("Destination", dest)
		req.Header.Set("Overwrite", "T")
		rec := httptest.NewRecorder()
		h.ServeHTTP(rec, req)
		if _, err := fs.Stat(ctx, "/a/f"); err != nil {
			t.Fatalf("source /a/f destroyed by COPY to %q (HTTP %d): %v", dest, rec.Code, err)
		}
	}
}

func TestF2CopyOntoAncestorDestroysSource(t *testing.T) {
	ctx := context.Background()
	fs := NewMemFS()
	fs.Mkdir(ctx, "/a", 0777)
	fs.Mkdir(ctx, "/a/b", 0777)
	f, _ := fs.OpenFile(ctx, "/a/b/f", os.O_RDWR|os.O_CREATE, 0666)
	f.Write([]byte("x"))
	f.Close()
	h := &Handler{FileSystem: fs, LockSystem: NewMemLS()}
	req := httptest.NewRequest("COPY", "/a/b", nil)
	req.Header.Set("Destination", "/a")
	req.Header.Set("Overwrite", "T")
	rec := httptest.NewRecorder()
	h.ServeHTTP(rec, req)
	if _, err := fs.Stat(ctx, "/a/b/f"); err != nil {
		t.Errorf("source /a/b/f destroyed (HTTP %d): %v", rec.Code, err)
	}
}

package http2

import (
	"sync"
	"testing"
)

// C18 statement: "requests on streams with ID > L are reported as retryable". setGoAway makes a
// deliberate exception: stream 1 under a GOAWAY with a non-NO error code is aborted with a plain
// error that canRetryError rejects, although the server declared it unprocessed (L = 0).
func TestVerifClientGoAwayStream1NotRetryable(t *testing.T) {
	cc := &ClientConn{streams: map[uint32]*clientStream{}, nextStreamID: 5}
	cc.cond = sync.NewCond(&cc.mu)
	mk := func(id uint32) *clientStream {
		cs := &clientStream{cc: cc, ID: id, abort: make(chan struct{})}
		cc.streams[id] = cs
		return cs
	}
	s1, s3 := mk(1), mk(3)
	f := &GoAwayFrame{FrameHeader: FrameHeader{valid: true, Type: FrameGoAway}, LastStreamID: 0, ErrCode: ErrCodeEnhanceYourCalm}
	cc.setGoAway(f)
	t.Logf("stream 1: abortErr=%v retryable=%v", s1.abortErr, canRetryError(s1.abortErr))
	t.Logf("stream 3: abortErr=%v retryable=%v", s3.abortErr, canRetryError(s3.abortErr))
	if !canRetryError(s3.abortErr) {
		t.Errorf("stream 3 (> last-stream-id 0) not retryable: %v", s3.abortErr)
	}
	if !canRetryError(s1.abortErr) {
		t.Errorf("stream 1 (> last-stream-id 0) not retryable: %v", s1.abortErr)
	}
}

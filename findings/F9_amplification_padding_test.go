// Demonstration of finding F9 (property C27), against the real code: copy into /repo/quic and run
//   go test -run TestF9AmplificationPadding .
// Before the fix (quic: do not pad server Initial datagrams beyond the anti-amplification limit) the
// server answers a 43-byte undecryptable datagram with a 1200-byte datagram once its budget is between
// 128 and 1199 bytes; the total sent exceeds three times the total received.
package quic

import (
	"testing"
	"testing/synctest"
	"time"
)

func TestF9AmplificationPadding(t *testing.T) {
	synctest.Test(t, func(t *testing.T) {
		tc := newTestConn(t, serverSide)
		dgrams := handshakeDatagrams(tc)
		fillCryptoFrames(dgrams[0], tc.cryptoDataIn)
		tc.write(dgrams[0])
		recv := 1200
		sent := 0
		drain := func() {
			for {
				synctest.Wait()
				buf := tc.endpoint.read()
				if buf == nil {
					return
				}
				sent += len(buf)
				if sent > 3*recv {
					t.Errorf("server sent %d bytes in total, more than 3*%d received from the unvalidated address", sent, recv)
				}
			}
		}
		drain()
		for i := 0; i < 5; i++ {
			time.Sleep(2 * time.Second)
			// a small datagram that cannot be decrypted (looks like a 1-RTT packet for this connection)
			garbage := make([]byte, 43)
			garbage[0] = 0x40
			ids := tc.conn.connIDState.local
			copy(garbage[1:], ids[len(ids)-1].cid)
			tc.endpoint.write(&datagram{b: garbage, peerAddr: tc.conn.peerAddr})
			recv += len(garbage)
			drain()
		}
	})
}

package webdav

import (
	"context"
	"io"
	"os"
	"path/filepath"
	"testing"
)

// A Write of zero bytes at a position beyond the end: the native file keeps its size, the memFS file
// grows to the position (memFile.Write extends data to pos before looking at len(p)).
func TestDav2ZeroLengthWriteBeyondEOF(t *testing.T) {
	ctx := context.Background()
	size := func(fs FileSystem) int64 {
		f, err := fs.OpenFile(ctx, "/f", os.O_RDWR|os.O_CREATE, 0666)
		if err != nil {
			t.Fatal(err)
		}
		defer f.Close()
		if _, err := f.Seek(10, io.SeekStart); err != nil {
			t.Fatal(err)
		}
		if n, err := f.Write(nil); n != 0 || err != nil {
			t.Fatalf("Write(nil) = %d, %v", n, err)
		}
		fi, err := fs.Stat(ctx, "/f")
		if err != nil {
			t.Fatal(err)
		}
		return fi.Size()
	}
	dir := t.TempDir()
	native := size(Dir(filepath.Join(dir)))
	mem := size(NewMemFS())
	if native != mem {
		t.Errorf("size after Seek(10); Write(nil): native %d, memFS %d", native, mem)
	}
}

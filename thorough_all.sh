#!/bin/bash
# every registered check, thorough tier, on the current tree; updates the per-property baselines
# of the checks that are completely green. Usage: ./thorough_all.sh [parallelism] [ids...]
cd /verif
P=${1:-2}; shift
ids="$@"; [ -z "$ids" ] && ids=$(bin/govc list | cut -d' ' -f1)
mkdir -p /verif/out/thor
echo $ids | tr ' ' '\n' | xargs -P $P -I{} sh -c './check {} thorough --update-baseline > /verif/out/thor/{}.log 2>&1; tail -1 /verif/out/thor/{}.log'
grep -l '^VIOLATION\|^UNDECIDED' /verif/out/thor/*.log 2>/dev/null

#!/bin/bash
# usage: seedrun.sh <id> <slug> <check ids...>
# 1. confirms the sub-agent's seeded change in its scratch worktree /tmp/seed-<id> (demo fails with
#    the change, passes without, package suite passes with the change);
# 2. keeps patch/demo/meta under /verif/seeded/<id>-<slug> and removes the worktree;
# 3. applies the patch to /repo, runs the named property checks, and reverts it straight afterwards.
export GOFLAGS=-mod=mod GOPROXY=off
id=$1; slug=$2; shift 2
wt=/tmp/seed-$id; dst=/verif/seeded/$id-$slug
if [ -d $wt ]; then
  cd $wt || exit 2
  place=$(head -1 demo_test.go.txt | sed 's|^// place at: *||')
  pkg=$(dirname $place)
  cp demo_test.go.txt $place
  name=$(grep -o 'func Test[A-Za-z0-9_]*' demo_test.go.txt | sed 's/func //' | paste -sd'|')
  echo "== demo WITH change (expect FAIL): $name"
  go test -vet=off -count=1 -run "^($name)\$" ./$pkg/ 2>&1 | tail -3
  echo "== package suite WITH change, demo excluded (expect ok)"
  go test -vet=off -count=1 -skip "^($name)\$" ./$pkg/ 2>&1 | tail -2
  git apply -R patch.diff || exit 3
  echo "== demo WITHOUT change (expect ok)"
  go test -vet=off -count=1 -run "^($name)\$" ./$pkg/ 2>&1 | tail -2
  rm -f $place
  /verif/collect_seed.sh $id $slug
fi
cd /verif
git -C /repo apply $dst/patch.diff || exit 3
for c in "$@"; do
  echo "== ./check $c on /repo WITH the change"
  ./check $c | grep -v KNOWN-FINDING | cut -c1-260
done
git -C /repo apply -R $dst/patch.diff
git -C /repo status --short | head -3

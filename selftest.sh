#!/bin/bash
# Must-fail corpus: every seeded change under /verif/seeded is applied to /repo in turn, the check
# named in seeded/EXPECT.txt is run, and the change is undone. A change recorded as "caught" must
# make the check exit 1 with a VIOLATION line; one recorded as "missed" is reported for information.
# Usage: ./selftest.sh [seed-dir-prefix ...]   (no argument: all). Needs a clean /repo working tree.
cd /verif
if [ -n "$(git -C /repo status --porcelain)" ]; then echo "selftest: /repo working tree is not clean"; exit 2; fi
bad=0
while read -r dir id want; do
  case "$dir" in \#*|"") continue;; esac
  if [ $# -gt 0 ]; then m=0; for p in "$@"; do case "$dir" in $p*) m=1;; esac; done; [ $m = 1 ] || continue; fi
  if ! git -C /repo apply /verif/seeded/$dir/patch.diff 2>/dev/null; then echo "SELFTEST $dir: patch does not apply any more"; bad=1; continue; fi
  out=$(./check $id quick 2>&1); rc=$?
  git -C /repo apply -R /verif/seeded/$dir/patch.diff
  nv=$(echo "$out" | grep -c '^VIOLATION')
  if [ "$want" = caught ]; then
    if [ $rc -eq 1 ] && [ $nv -gt 0 ]; then echo "SELFTEST $dir: caught by $id ($nv violation lines)"; else echo "SELFTEST $dir: EXPECTED VIOLATION, got exit $rc"; bad=1; fi
  else
    echo "SELFTEST $dir: recorded as missed; $id exit $rc, $nv violation lines"
  fi
done < seeded/EXPECT.txt
# evidence files were rewritten by runs on changed trees: regenerate them on the unchanged tree
echo "selftest done (bad=$bad); run ./runall.sh before committing evidence"
exit $bad

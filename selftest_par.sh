#!/bin/bash
# Parallel form of selftest.sh: K scratch worktrees of /repo (under /tmp, removed afterwards); each
# seeded change is applied to one of them and the named check is run against it with GOVC_REPO.
# /repo itself is not touched. Evidence files are overwritten by these runs: run ./runall.sh afterwards.
# Usage: ./selftest_par.sh [K]   (default 2)
cd /verif
K=${1:-2}
if [ -n "$(git -C /repo status --porcelain)" ]; then echo "selftest: /repo working tree is not clean"; exit 2; fi
grep -v '^#' seeded/EXPECT.txt | grep -v '^$' > /tmp/st.list
rm -f /tmp/st.part.*; split -n l/$K -d /tmp/st.list /tmp/st.part.
for f in /tmp/st.part.*; do
  k=${f##*.}
  (
    wt=/tmp/st-wt-$k
    git -C /repo worktree remove --force $wt 2>/dev/null
    git -C /repo worktree add -q --detach $wt HEAD || exit 3
    while read -r dir id want; do
      if ! git -C $wt apply /verif/seeded/$dir/patch.diff 2>/dev/null; then echo "SELFTEST $dir: patch does not apply any more"; continue; fi
      out=$(GOVC_REPO=$wt ./check $id quick 2>&1); rc=$?
      git -C $wt apply -R /verif/seeded/$dir/patch.diff
      nv=$(echo "$out" | grep -c '^VIOLATION')
      first=$(echo "$out" | grep '^VIOLATION' | head -1 | sed 's/.*obligation=//' | cut -c1-90)
      echo "SELFTEST $dir: want=$want check=$id exit=$rc violations=$nv $first"
    done < $f
    git -C /repo worktree remove --force $wt
  ) > /tmp/st.out.$k 2>&1 &
done
wait
cat /tmp/st.out.* | sort > /verif/seeded/SELFTEST.last
bad=0
while read -r line; do
  case "$line" in
    *"want=caught"*"exit=1"*) ;;
    *"want=caught"*) echo "EXPECTED VIOLATION: $line"; bad=1;;
    *"want=missed"*"exit=1"*) echo "NOW CAUGHT: $line";;
  esac
done < /verif/seeded/SELFTEST.last
echo "selftest_par done: $(wc -l < /verif/seeded/SELFTEST.last) seeds, bad=$bad (details: seeded/SELFTEST.last)"
rm -f /tmp/st.part.* /tmp/st.list /tmp/st.out.*
exit $bad

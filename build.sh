#!/bin/sh
# builds /verif/bin/govc from source, offline
set -e
cd /verif/govc
export PATH=/opt/veriftools/go1.26.8/bin:$PATH GOTOOLCHAIN=local GOFLAGS=-mod=mod GOPROXY=off GOSUMDB=off
mkdir -p /verif/bin /verif/out /verif/evidence
go build -o /verif/bin/govc .

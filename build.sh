#!/bin/sh
# builds /verif/bin/govc from source, offline
set -e
cd /verif/govc
export PATH=/opt/veriftools/go1.26.8/bin:$PATH GOTOOLCHAIN=local GOFLAGS=-mod=mod GOPROXY=off GOSUMDB=off
mkdir -p /verif/bin /verif/out /verif/evidence
# build beside the target and rename, so that a running govc is never overwritten in place
go build -o /verif/bin/govc.new.$$ .
mv -f /verif/bin/govc.new.$$ /verif/bin/govc

#!/usr/bin/env python3
"""Regenerates /verif/MANIFEST.json from props.json and not_applicable.json."""
import json, subprocess, os
os.chdir('/verif')
import glob
props = json.load(open('props.json'))
byid = {p['id']: p for p in props}
for f in sorted(glob.glob('props.d/*.json')):
    p = json.load(open(f))
    byid[p['id']] = p
props = list(byid.values())
na =json.load(open('not_applicable.json'))
allids = [json.loads(l)['id'] for l in open('properties.jsonl')]
claimed = {p['id'] for p in props}
checks = []
for p in sorted(props, key=lambda p: p['id']):
    i = p['id']
    checks.append({
        "property_id": i,
        "quick_cmd": "./check %s quick" % i,
        "thorough_cmd": "./check %s thorough" % i,
        "evidence_file": "/verif/evidence/%s.json" % i,
        "replay_cmd_template": "cat {path}",
        "engine": "govc",
        "level_claimed": {"category": p.get("level", "proof"), "text": p["level_text"], "design_ref": "DESIGN.md section 6, " + i},
        "level_note": p["level_note"],
        "technique": p.get("technique", "contract-based deductive verification: VCs generated from go/ssa of the real functions, discharged by z3/cvc5"),
    })
nalist = []
for i in allids:
    if i in claimed:
        continue
    reason = na.get(i) or na["_default"]
    nalist.append({"property_id": i, "reason": reason})
hooks = subprocess.run(["git", "-C", "/repo", "log", "--format=%H", "--grep=^verif hook"], capture_output=True, text=True).stdout.split()
m = {
    "version": 1,
    "setup_cmd": "./build.sh",
    "hooks": {
        "guard": "verif",
        "enable": "go build tag: -tags verif (the verifier loads packages with -tags=verif; replay tests run go test -tags verif); hook files are /repo/<pkg>/verif_*.go (each starts with //go:build verif), comment contracts plus spec/lemma functions, compiled only under the tag",
        "baseline_off_cmd": "cd /repo && go test -mod=mod -json -vet=off -count=1 -timeout 25m ./...",
        "source_commits": hooks,
        "add_only": True,
    },
    "engines": [{"name": "govc", "path": "/verif/govc", "serves_properties": sorted(claimed),
                 "kind_free_text": "deductive verifier built here: weakest-precondition style VC generation by symbolic execution over go/ssa (NaiveForm) of the unmodified functions, contracts in //@ comment blocks of tag-guarded files, loops cut at invariants, calls replaced by callee contracts, obligations discharged by a z3 4.8 / z3 5.1 / cvc5 portfolio, counterexamples replayed with go test -overlay"}],
    "checks": checks,
    "not_applicable": nalist,
    "notes": "exit 0 = all obligations discharged (KNOWN-FINDING lines allowed); exit 1 = VIOLATION line(s); exit 2 = UNDECIDED (engine limit or stale contract binding, no VIOLATION line).",
}
json.dump(m, open('MANIFEST.json', 'w'), indent=1)
print("checks:", len(checks), "not_applicable:", len(nalist))

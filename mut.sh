#!/bin/sh
# usage: mut.sh <file relative to /repo> <sed expr> <property id>   -- applies a mutation, runs the check, reverts
f=$1; e=$2; id=$3
cd /repo || exit 2
cp "$f" /tmp/mut.bak.$$
sed -i "$e" "$f"
if cmp -s "$f" /tmp/mut.bak.$$; then echo "MUTATION DID NOT APPLY"; rm /tmp/mut.bak.$$; exit 3; fi
git diff --stat -- "$f" | head -1
go build ./$(dirname $f) 2>&1 | head -5
cd /verif && ./check "$id" | cut -c1-220; rc=$?
cp /tmp/mut.bak.$$ /repo/"$f"; rm /tmp/mut.bak.$$

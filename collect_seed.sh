#!/bin/bash
# collect_seed.sh <id> <slug>: keep a sub-agent's seeded change under /verif/seeded and drop its worktree
set -e
id=$1; slug=$2; src=/tmp/seed-$id; dst=/verif/seeded/$id-$slug
mkdir -p $dst
cp $src/patch.diff $dst/patch.diff
cp $src/demo_test.go.txt $dst/demo_test.go.txt
cp $src/meta.json $dst/meta.json
git -C /repo worktree remove --force $src
git -C /repo worktree prune
echo "kept $dst"

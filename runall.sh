#!/bin/sh
# runs every registered quick check on the current tree; prints one summary line per property
cd /verif
for id in $(python3 -c "import json; print(' '.join(sorted(p['id'] for p in json.load(open('props.json')))))"); do
  ./check $id quick | tail -1
done

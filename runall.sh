#!/bin/sh
# runs every registered quick check on the current tree; prints one summary line per property
cd /verif
for id in $(bin/govc list | cut -d' ' -f1); do
  ./check $id quick | tail -1
done

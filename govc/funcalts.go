package main

import (
	"go/token"
	"go/types"
)

// Function values that differ between the paths reaching a join (e.g. the result of a switch
// that picks a parser) are merged into a value whose id is the ite of the ids and which carries
// the alternatives; a call through it is dispatched over the alternatives (closed set: the value
// is one of them by construction). Only plain functions (no captured variables).
func funcAlts(v Val) ([]*Closure, bool) {
	if v.Ptr != nil || v.Tuple != nil || len(v.C) != 1 {
		return nil, false
	}
	if v.Clo != nil {
		if len(v.Clo.Bindings) != 0 {
			return nil, false
		}
		return []*Closure{v.Clo}, true
	}
	if v.Alts != nil {
		return v.Alts, true
	}
	return nil, false
}

func mergeFuncVals(cond *Term, v, r Val) (Val, bool) {
	av, ok1 := funcAlts(v)
	ar, ok2 := funcAlts(r)
	if !ok1 || !ok2 {
		// a known function merged with an unknown function value (e.g. one loaded from a table):
		// the result is an unknown function value (calls through it are abstract calls)
		if isFuncVal(v) && isFuncVal(r) && (ok1 || ok2) {
			return Val{T: r.T, C: []*Term{Ite(cond, v.C[0], r.C[0])}}, true
		}
		return Val{}, false
	}
	seen := map[string]bool{}
	var alts []*Closure
	for _, c := range append(append([]*Closure{}, av...), ar...) {
		k := c.Fn.String()
		if !seen[k] {
			seen[k] = true
			alts = append(alts, c)
		}
	}
	out := Val{T: r.T, C: []*Term{Ite(cond, v.C[0], r.C[0])}}
	if len(alts) == 1 {
		out.Clo = alts[0]
		out.C = []*Term{r.C[0]}
		return out, true
	}
	out.Alts = alts
	return out, true
}

// callAlts dispatches a call through a merged function value.
func (fx *fnExec) callAlts(fv Val, args []Val, st *State, pos token.Pos, rt types.Type) Val {
	ex := fx.ex
	var ins []edgeIn
	var vals []Val
	base := st.clone()
	for _, c := range fv.Alts {
		idEq := Eq(fv.C[0], ex.funcID(c.Fn))
		s := base.clone()
		s.Reach = And(base.Reach, idEq)
		if s.Reach.IsFalse() {
			continue
		}
		v := fx.callStatic(c.Fn, args, nil, s, pos, rt)
		ins = append(ins, edgeIn{st: s, cond: s.Reach})
		vals = append(vals, v)
	}
	out, err := mergeStates(ins)
	if err != nil {
		fail("%s: function-value dispatch merge: %v", fx.fn, err)
	}
	var conds []*Term
	var lv []Val
	for i, e := range ins {
		if !e.cond.IsFalse() {
			conds = append(conds, e.cond)
			lv = append(lv, vals[i])
		}
	}
	*st = *out
	if len(lv) == 0 {
		st.Reach = False
		return Val{}
	}
	if rt == nil || (len(lv[0].C) == 0 && lv[0].Tuple == nil) {
		return Val{}
	}
	v, err := mergeVals(conds, lv)
	if err != nil {
		fail("%s: function-value dispatch result merge: %v", fx.fn, err)
	}
	return v
}

func isFuncVal(v Val) bool {
	if v.Ptr != nil || v.Tuple != nil || len(v.C) != 1 || v.T == nil {
		return false
	}
	_, ok := v.T.Underlying().(*types.Signature)
	if ok && v.Clo != nil && len(v.Clo.Bindings) != 0 {
		return false
	}
	return ok
}

package main

// specBound is the stack of quantifier-bound variables of the spec expression being evaluated.
// A fact assumed while evaluating under a binder (the postcondition or type invariant of a callee
// applied to arguments that mention the bound variable) holds for every value of that variable, so
// it is closed universally over the bound variables it mentions instead of being recorded with a
// dangling free variable.
var specBound []*Term

func closeOverSpecBound(f *Term) *Term {
	if len(specBound) == 0 {
		return f
	}
	syms := map[string]bool{}
	FreeSyms(f, syms, map[*Term]bool{})
	var bs []*Term
	for _, b := range specBound {
		if syms[b.Name] {
			bs = append(bs, b)
		}
	}
	if len(bs) == 0 {
		return f
	}
	return Forall(bs, f)
}

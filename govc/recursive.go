package main

import (
	"golang.org/x/tools/go/ssa"
)

// Recursive spec functions (`//@ pure` + `recursive`): the function is an uninterpreted function of
// its flattened arguments (same construction as the `function` flag) whose defining equation is
// assumed once per use: the body is executed with nested self-calls returning only the
// uninterpreted application (one unfolding). This is a definitional extension as long as the Go
// function terminates; each such function is listed in the evidence.

var recUnfolding = map[*ssa.Function]bool{}

func (fx *fnExec) callRecursivePure(fn *ssa.Function, c *Contract, vals []Val, st *State) Val {
	ex := fx.ex
	sig := fn.Signature.Results()
	var rvals []Val
	for i := 0; i < sig.Len(); i++ {
		shape := freshVal(fn.Name()+"_rec", sig.At(i).Type())
		rvals = append(rvals, fx.functionalResult(fn, vals, i, shape, st))
	}
	delete(ex.TrustedUsed, "function: "+fn.String()+" assumed to be a deterministic function of its arguments")
	ex.Dropped["recursive spec function "+fn.String()+": uninterpreted, defining equation unfolded once per use"] = true
	var res Val
	switch len(rvals) {
	case 0:
		return Val{}
	case 1:
		res = rvals[0]
	default:
		res = Val{T: sig, Tuple: rvals}
	}
	if recUnfolding[fn] {
		return res
	}
	recUnfolding[fn] = true
	ex.specDepth++
	body, _ := ex.runFunc(fn, vals, nil, st.clone(), false, c)
	ex.specDepth--
	recUnfolding[fn] = false
	eq := func(a, b Val) {
		for k := range a.C {
			if k < len(b.C) {
				ex.assume(st, Eq(a.C[k], b.C[k]))
			}
		}
	}
	if body.Tuple != nil {
		for i := range rvals {
			if i < len(body.Tuple) {
				eq(rvals[i], body.Tuple[i])
			}
		}
	} else if len(rvals) == 1 {
		eq(rvals[0], body)
	}
	return res
}

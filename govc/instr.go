package main

import (
	"fmt"
	"go/token"
	"go/types"
	"math/big"

	"golang.org/x/tools/go/ssa"
)

func (fx *fnExec) step(in ssa.Instruction, st *State, b *ssa.BasicBlock) {
	ex := fx.ex
	switch in := in.(type) {
	case *ssa.DebugRef:
		return
	case *ssa.Alloc:
		et := in.Type().(*types.Pointer).Elem()
		if !isHeapAlloc(in) {
			st.Allocs[in] = zeroVal(et)
			st.Regs[in] = Val{T: in.Type(), Ptr: &MetaPtr{Kind: PLocal, Alloc: in, Root: et}}
			return
		}
		r := ex.newObject(st, et, in.Comment)
		st.Regs[in] = scalar(in.Type(), r)
	case *ssa.Store:
		addr := fx.value(in.Addr, st)
		v := fx.value(in.Val, st)
		mp := fx.ptrOf(addr, st, in.Pos(), true)
		if v.Ptr != nil {
			if m, ok := fx.tryMaterialize(v); ok {
				fx.store(st, mp, m)
				return
			}
			if mp.Kind == PLocal && len(mp.Path) == 0 {
				// an interior pointer kept in a non-escaping local (e.g. a pointer parameter of an
				// inlined callee): stays at the meta level
				st.Allocs[mp.Alloc] = v
				return
			}
			v = fx.materialize(v)
		}
		fx.store(st, mp, v)
	case *ssa.UnOp:
		fx.unop(in, st)
	case *ssa.BinOp:
		x := fx.value(in.X, st)
		y := fx.value(in.Y, st)
		st.Regs[in] = fx.binop(in.Op, x, y, in.Type(), st, in.Pos())
	case *ssa.Phi:
		// evaluated on the incoming edge
		if _, ok := st.Regs[in]; !ok {
			fail("%s: phi %s not set on edge", fx.fn, in.Name())
		}
	case *ssa.Call:
		r := fx.call(in, &in.Call, st)
		if !st.Reach.IsFalse() {
			st.Regs[in] = r
		}
	case *ssa.ChangeType:
		v := fx.value(in.X, st)
		v.T = in.Type()
		st.Regs[in] = v
	case *ssa.ChangeInterface:
		v := fx.value(in.X, st)
		v.T = in.Type()
		st.Regs[in] = v
	case *ssa.Convert:
		st.Regs[in] = fx.convert(fx.value(in.X, st), in.Type(), st, in.Pos())
	case *ssa.MultiConvert:
		st.Regs[in] = fx.convert(fx.value(in.X, st), in.Type(), st, in.Pos())
	case *ssa.MakeInterface:
		v := fx.value(in.X, st)
		if v.Ptr != nil {
			v = fx.materialize(v)
		}
		st.Regs[in] = ex.makeIface(in.Type(), v)
	case *ssa.TypeAssert:
		fx.typeAssert(in, st)
	case *ssa.Extract:
		t := fx.value(in.Tuple, st)
		if t.Tuple == nil {
			fail("%s: extract from non-tuple", fx.fn)
		}
		st.Regs[in] = t.Tuple[in.Index]
	case *ssa.Field:
		st.Regs[in] = fieldOf(fx.value(in.X, st), in.Field)
	case *ssa.FieldAddr:
		x := fx.value(in.X, st)
		mp := fx.ptrOf(x, st, in.Pos(), true)
		n := mp.extend(Step{Field: in.Field})
		r := ex.resolve(n)
		if (r.Kind == PObj || r.Kind == PArr) && len(r.Path) == 0 {
			st.Regs[in] = Val{T: in.Type(), C: []*Term{r.Ref}}
		} else {
			st.Regs[in] = Val{T: in.Type(), Ptr: n}
		}
	case *ssa.Index:
		x := fx.value(in.X, st)
		idx := toBV64(fx.value(in.Index, st))
		switch u := x.T.Underlying().(type) {
		case *types.Array:
			fx.nopanic("index", st, And(BVSle(BVI(0, 64), idx), BVSlt(idx, BVI(u.Len(), 64))), in.Pos())
			st.Regs[in] = indexOf(x, idx)
		case *types.Basic: // string
			fx.nopanic("index", st, And(BVSle(BVI(0, 64), idx), BVSlt(idx, x.C[2])), in.Pos())
			st.Regs[in] = scalar(in.Type(), Select(x.C[0], BVAdd(x.C[1], idx)))
		default:
			fail("%s: Index on %v", fx.fn, x.T)
		}
	case *ssa.IndexAddr:
		x := fx.value(in.X, st)
		idx := toBV64(fx.value(in.Index, st))
		switch u := x.T.Underlying().(type) {
		case *types.Slice:
			fx.nopanic("index", st, And(BVSle(BVI(0, 64), idx), BVSlt(idx, x.C[2])), in.Pos())
			st.Regs[in] = Val{T: in.Type(), Ptr: &MetaPtr{Kind: PElem, Ref: x.C[0], Idx: BVAdd(x.C[1], idx), Root: u.Elem()}}
		case *types.Pointer:
			at := u.Elem().Underlying().(*types.Array)
			mp := fx.ptrOf(x, st, in.Pos(), true)
			fx.nopanic("index", st, And(BVSle(BVI(0, 64), idx), BVSlt(idx, BVI(at.Len(), 64))), in.Pos())
			st.Regs[in] = Val{T: in.Type(), Ptr: mp.extend(Step{Field: -1, Index: idx})}
		default:
			fail("%s: IndexAddr on %v", fx.fn, x.T)
		}
	case *ssa.Lookup:
		fx.lookup(in, st)
	case *ssa.Slice:
		fx.slice(in, st)
	case *ssa.MakeSlice:
		et := in.Type().Underlying().(*types.Slice).Elem()
		ln := toBV64(fx.value(in.Len, st))
		cp := toBV64(fx.value(in.Cap, st))
		fx.nopanic("makelen", st, And(BVSle(BVI(0, 64), ln), BVSle(ln, cp), BVSle(cp, maxLen)), in.Pos())
		r := ex.newRef(st, "mk")
		for k, srt := range layout(et) {
			key := elemKey(et, k)
			rowS := ArraySort(BV64, srt)
			st.heapSet(key, Store(st.heapGet(key, ArraySort(IntSort, rowS)), r, ConstArr(rowS, zeroTerm(srt))))
		}
		st.Regs[in] = Val{T: in.Type(), C: []*Term{r, BVI(0, 64), ln, cp}}
	case *ssa.MakeMap:
		r := ex.newRef(st, "map")
		st.Regs[in] = fx.initMap(st, in.Type(), r)
	case *ssa.MakeClosure:
		fn := in.Fn.(*ssa.Function)
		var bs []Val
		for _, bnd := range in.Bindings {
			bv := fx.value(bnd, st)
			bs = append(bs, bv)
		}
		st.Regs[in] = Val{T: in.Type(), Clo: &Closure{Fn: fn, Bindings: bs}, C: []*Term{ex.funcID(fn)}}
	case *ssa.MapUpdate:
		fx.mapUpdate(in, st)
	case *ssa.Range:
		fx.rangeInit(in, st)
	case *ssa.Next:
		fx.rangeNext(in, st)
	case *ssa.If:
		c := fx.value(in.Cond, st).S()
		s1 := st.clone()
		fx.addEdge(b, b.Succs[0], st, And(st.Reach, c))
		fx.addEdge(b, b.Succs[1], s1, And(s1.Reach, Not(c)))
	case *ssa.Jump:
		fx.addEdge(b, b.Succs[0], st, st.Reach)
	case *ssa.Return:
		var rv Val
		switch len(in.Results) {
		case 0:
		case 1:
			rv = fx.value(in.Results[0], st)
			if rv.Ptr != nil {
				rv = fx.materialize(rv)
			}
		default:
			t := make([]Val, len(in.Results))
			for i, r := range in.Results {
				t[i] = fx.value(r, st)
				if t[i].Ptr != nil {
					t[i] = fx.materialize(t[i])
				}
			}
			rv = Val{T: fx.fn.Signature.Results(), Tuple: t}
		}
		fx.rets = append(fx.rets, edgeIn{st: st.clone(), cond: st.Reach})
		fx.retVals = append(fx.retVals, rv)
	case *ssa.Panic:
		fx.callCount["np:explicit"]++
		fx.oblige(fmt.Sprintf("nopanic.explicit.%d", fx.callCount["np:explicit"]), "nopanic", st, False, in.Pos(), "explicit panic unreachable")
		st.Reach = False
	case *ssa.RunDefers:
		fx.runDefers(in, st)
		return
	case *ssa.Defer:
		if callee := in.Call.StaticCallee(); callee != nil && noopFuncs[callee.String()] {
			return
		}
		if fx.recordDefer(in, st) {
			return
		}
		if fx.abstractOK("defer " + in.Call.String()) {
			return
		}
		fail("%s: defer %s not supported", fx.fn, in.Call.String())
	case *ssa.Go:
		// the goroutine is dropped in abstract units, but the unit's own call-site clauses see the launch
		if callee := in.Call.StaticCallee(); callee != nil && fx.c != nil && fx.c.Abstract {
			args := make([]Val, len(in.Call.Args))
			for i, a := range in.Call.Args {
				args[i] = fx.value(a, st)
			}
			fx.curCall = in
			fx.callSiteHooks(callee, args, st, in.Pos())
		}
		if fx.abstractOK("go " + in.Call.String()) {
			return
		}
		fail("%s: go statement not supported (mark the unit abstract)", fx.fn)
	case *ssa.Send, *ssa.Select:
		if fx.abstractOK(in.String()) {
			if v, ok := in.(ssa.Value); ok {
				st.Regs[v] = fx.freshOf("sel", v.Type(), st)
			}
			return
		}
		fail("%s: channel operation not supported", fx.fn)
	case *ssa.MakeChan:
		if fx.abstractOK("make chan (fresh channel value)") {
			st.Regs[in] = fx.freshOf("chan", in.Type(), st)
			return
		}
		fail("%s: channel operation not supported", fx.fn)
	case *ssa.SliceToArrayPointer:
		// panics when the slice is shorter than the array; the resulting pointer aliases the slice's
		// backing store, which this heap model cannot express: under `abstract` the result is a fresh
		// array object with unknown contents (sound for reads; writes through it are not modelled)
		x := fx.value(in.X, st)
		at := in.Type().(*types.Pointer).Elem().Underlying().(*types.Array)
		fx.nopanic("slice", st, BVSle(BVI(at.Len(), 64), x.C[2]), in.Pos())
		if fx.abstractOK("slice to array pointer conversion (result: fresh array with unknown contents)") {
			v := fx.freshOf("s2a", in.Type(), st)
			fx.ex.assume(st, Neq(v.C[0], IntC(0)))
			st.Regs[in] = v
			return
		}
		fail("%s: slice to array pointer conversion not supported", fx.fn)
	default:
		fail("%s: instruction %T not supported: %s", fx.fn, in, in)
	}
}

func (fx *fnExec) abstractOK(what string) bool {
	if fx.c != nil && fx.c.Abstract {
		fx.ex.Dropped["abstract: "+fx.prefix+": "+what] = true
		return true
	}
	return false
}

func (fx *fnExec) freshOf(hint string, t types.Type, st *State) Val {
	if tup, ok := t.(*types.Tuple); ok {
		vs := make([]Val, tup.Len())
		for i := range vs {
			vs[i] = fx.freshOf(fmt.Sprintf("%s%d", hint, i), tup.At(i).Type(), st)
		}
		return Val{T: t, Tuple: vs}
	}
	v := freshVal(hint, t)
	fx.ex.assumeAll(st, typeInv(v, 0))
	fx.ex.assumeHeapWF(st, v)
	return v
}

var noopFuncs = map[string]bool{
	"(*sync.Mutex).Lock": true, "(*sync.Mutex).Unlock": true,
	"(*sync.RWMutex).Lock": true, "(*sync.RWMutex).Unlock": true, "(*sync.RWMutex).RLock": true, "(*sync.RWMutex).RUnlock": true,
}

func (fx *fnExec) unop(in *ssa.UnOp, st *State) {
	x := fx.value(in.X, st)
	switch in.Op {
	case token.MUL:
		mp := fx.ptrOf(x, st, in.Pos(), true)
		v := fx.load(st, mp)
		v.T = in.Type()
		r := fx.ex.resolve(mp)
		if r.Kind != PLocal {
			fx.ex.assumeAll(st, typeInv(v, 0))
			fx.ex.assumeHeapWF(st, v)
		}
		st.Regs[in] = v
	case token.NOT:
		st.Regs[in] = scalar(in.Type(), Not(x.S()))
	case token.SUB:
		if isInteger(x.T) {
			st.Regs[in] = scalar(in.Type(), BVNeg(x.S()))
		} else {
			st.Regs[in] = scalar(in.Type(), App(DeclUF("fneg", BV64, BV64), x.S()))
		}
	case token.XOR:
		st.Regs[in] = scalar(in.Type(), BVNot(x.S()))
	case token.ARROW:
		if fx.abstractOK("channel receive") {
			st.Regs[in] = fx.freshOf("recv", in.Type(), st)
			return
		}
		fail("%s: channel receive not supported", fx.fn)
	default:
		fail("%s: unop %s", fx.fn, in.Op)
	}
}

func strEq(a, b Val) *Term {
	la, lb := a.C[2], b.C[2]
	if lb.IsConst() && !la.IsConst() {
		a, b = b, a
		la, lb = lb, la
	}
	if la.IsConst() && la.Val.IsInt64() && la.Val.Int64() <= 64 {
		n := la.Val.Int64()
		conj := []*Term{Eq(la, lb)}
		for i := int64(0); i < n; i++ {
			conj = append(conj, Eq(Select(a.C[0], BVAdd(a.C[1], BVI(i, 64))), Select(b.C[0], BVAdd(b.C[1], BVI(i, 64)))))
		}
		return And(conj...)
	}
	i := Fresh("qi", BV64)
	body := Implies(And(BVSle(BVI(0, 64), i), BVSlt(i, la)),
		Eq(Select(a.C[0], BVAdd(a.C[1], i)), Select(b.C[0], BVAdd(b.C[1], i))))
	return And(Eq(la, lb), Forall([]*Term{i}, body))
}

func (fx *fnExec) binop(op token.Token, x, y Val, rt types.Type, st *State, pos token.Pos) Val {
	if (x.Ptr != nil || y.Ptr != nil) && (op == token.EQL || op == token.NEQ) {
		if eq, ok := fx.metaPtrEq(x, y); ok {
			if op == token.EQL {
				return boolVal(eq)
			}
			return boolVal(Not(eq))
		}
	}
	if x.Ptr != nil {
		x = fx.materialize(x)
	}
	if y.Ptr != nil {
		y = fx.materialize(y)
	}
	xt := x.T.Underlying()
	switch u := xt.(type) {
	case *types.Basic:
		switch {
		case u.Info()&types.IsInteger != 0:
			return fx.intBinop(op, x, y, rt, st, pos)
		case u.Info()&types.IsBoolean != 0:
			switch op {
			case token.EQL:
				return boolVal(Eq(x.S(), y.S()))
			case token.NEQ:
				return boolVal(Neq(x.S(), y.S()))
			case token.LAND:
				return boolVal(And(x.S(), y.S()))
			case token.LOR:
				return boolVal(Or(x.S(), y.S()))
			}
		case u.Info()&types.IsString != 0:
			switch op {
			case token.EQL:
				return boolVal(strEq(x, y))
			case token.NEQ:
				return boolVal(Not(strEq(x, y)))
			case token.ADD:
				return fx.ex.strConcat(st, x, y, rt)
			case token.LSS, token.LEQ, token.GTR, token.GEQ:
				u := DeclUF("strcmp:"+op.String(), BoolSort, StrArr, BV64, BV64, StrArr, BV64, BV64)
				fx.ex.Dropped["string ordering "+op.String()+" is uninterpreted"] = true
				return boolVal(App(u, x.C[0], x.C[1], x.C[2], y.C[0], y.C[1], y.C[2]))
			}
		case u.Info()&types.IsFloat != 0:
			fx.ex.Dropped["float arithmetic is uninterpreted"] = true
			switch op {
			case token.EQL:
				return boolVal(Eq(x.S(), y.S()))
			case token.NEQ:
				return boolVal(Neq(x.S(), y.S()))
			case token.LSS, token.LEQ, token.GTR, token.GEQ:
				return boolVal(App(DeclUF("fcmp:"+op.String(), BoolSort, BV64, BV64), x.S(), y.S()))
			default:
				return scalar(rt, App(DeclUF("fop:"+op.String(), BV64, BV64, BV64), x.S(), y.S()))
			}
		case u.Kind() == types.UnsafePointer || u.Kind() == types.UntypedNil:
			if op == token.EQL {
				return boolVal(Eq(x.C[0], y.C[0]))
			}
			return boolVal(Neq(x.C[0], y.C[0]))
		}
	case *types.Interface:
		var eq *Term
		if isNilConst(y) {
			eq = Eq(x.C[0], IntC(0))
		} else if isNilConst(x) {
			eq = Eq(y.C[0], IntC(0))
		} else {
			if _, yi := y.T.Underlying().(*types.Interface); !yi {
				y = fx.ex.makeIface(x.T, y)
			}
			eq = And(Eq(x.C[0], y.C[0]), Eq(x.C[1], y.C[1]))
		}
		if op == token.EQL {
			return boolVal(eq)
		}
		return boolVal(Not(eq))
	case *types.Pointer, *types.Map, *types.Chan, *types.Signature:
		eq := Eq(x.C[0], y.C[0])
		if op == token.EQL {
			return boolVal(eq)
		}
		return boolVal(Not(eq))
	case *types.Slice:
		// only comparison with nil is legal
		eq := Eq(x.C[0], IntC(0))
		if isNilConst(x) {
			eq = Eq(y.C[0], IntC(0))
		}
		if op == token.EQL {
			return boolVal(eq)
		}
		return boolVal(Not(eq))
	case *types.Struct, *types.Array:
		eq := fx.valuesEqual(x, y)
		if op == token.EQL {
			return boolVal(eq)
		}
		return boolVal(Not(eq))
	}
	fail("%s: binop %s on %v", fx.fn, op, x.T)
	return Val{}
}

func isNilConst(v Val) bool {
	if v.T == nil {
		return false
	}
	if b, ok := v.T.Underlying().(*types.Basic); ok && b.Kind() == types.UntypedNil {
		return true
	}
	for _, c := range v.C {
		if !c.IsConst() || c.Val.Sign() != 0 {
			return false
		}
	}
	_, isIface := v.T.Underlying().(*types.Interface)
	_, isSlice := v.T.Underlying().(*types.Slice)
	return isIface || isSlice
}

func (fx *fnExec) valuesEqual(x, y Val) *Term {
	switch u := x.T.Underlying().(type) {
	case *types.Struct:
		var conj []*Term
		for i := 0; i < u.NumFields(); i++ {
			conj = append(conj, fx.valuesEqual(fieldOf(x, i), fieldOf(y, i)))
		}
		return And(conj...)
	case *types.Basic:
		if u.Info()&types.IsString != 0 {
			return strEq(x, y)
		}
	case *types.Array:
		if u.Len() <= 16 {
			var conj []*Term
			for i := int64(0); i < u.Len(); i++ {
				conj = append(conj, fx.valuesEqual(indexOf(x, BVI(i, 64)), indexOf(y, BVI(i, 64))))
			}
			return And(conj...)
		}
		i := Fresh("qi", BV64)
		body := Implies(And(BVSle(BVI(0, 64), i), BVSlt(i, BVI(u.Len(), 64))), fx.valuesEqual(indexOf(x, i), indexOf(y, i)))
		return Forall([]*Term{i}, body)
	}
	var conj []*Term
	for k := range x.C {
		conj = append(conj, Eq(x.C[k], y.C[k]))
	}
	return And(conj...)
}

func (fx *fnExec) intBinop(op token.Token, x, y Val, rt types.Type, st *State, pos token.Pos) Val {
	a, b := x.S(), y.S()
	signed := isSigned(x.T)
	w := a.Sort.W
	switch op {
	case token.SHL, token.SHR:
		// shift count: unsigned, possibly of a different width
		if isSigned(y.T) {
			fx.nopanic("shift", st, BVSle(BVI(0, b.Sort.W), b), pos)
		}
		var cnt *Term
		var over *Term = False
		if b.Sort.W > w {
			over = BVUle(BVI(int64(w), b.Sort.W), b)
			cnt = Extract(w-1, 0, b)
		} else {
			cnt = ZeroExt(b, w)
		}
		var r *Term
		switch {
		case op == token.SHL:
			r = Ite(over, BVI(0, w), BVShl(a, cnt))
		case signed:
			r = Ite(over, BVAshr(a, BVI(int64(w-1), w)), BVAshr(a, cnt))
		default:
			r = Ite(over, BVI(0, w), BVLshr(a, cnt))
		}
		return scalar(rt, r)
	}
	if a.Sort != b.Sort {
		fail("%s: integer binop %s width mismatch %s %s", fx.fn, op, a.Sort, b.Sort)
	}
	switch op {
	case token.ADD:
		return scalar(rt, BVAdd(a, b))
	case token.SUB:
		return scalar(rt, BVSub(a, b))
	case token.MUL:
		return scalar(rt, BVMul(a, b))
	case token.QUO:
		fx.nopanic("div", st, Neq(b, BVI(0, w)), pos)
		if signed {
			return scalar(rt, BVSDiv(a, b))
		}
		return scalar(rt, BVUDiv(a, b))
	case token.REM:
		fx.nopanic("div", st, Neq(b, BVI(0, w)), pos)
		if abstractRem {
			return scalar(rt, abstractRemTerm(a, b, signed))
		}
		if signed {
			return scalar(rt, BVSRem(a, b))
		}
		return scalar(rt, BVURem(a, b))
	case token.AND:
		return scalar(rt, BVAnd(a, b))
	case token.OR:
		return scalar(rt, BVOr(a, b))
	case token.XOR:
		return scalar(rt, BVXor(a, b))
	case token.AND_NOT:
		return scalar(rt, BVAnd(a, BVNot(b)))
	case token.EQL:
		return boolVal(Eq(a, b))
	case token.NEQ:
		return boolVal(Neq(a, b))
	case token.LSS:
		if signed {
			return boolVal(BVSlt(a, b))
		}
		return boolVal(BVUlt(a, b))
	case token.LEQ:
		if signed {
			return boolVal(BVSle(a, b))
		}
		return boolVal(BVUle(a, b))
	case token.GTR:
		if signed {
			return boolVal(BVSlt(b, a))
		}
		return boolVal(BVUlt(b, a))
	case token.GEQ:
		if signed {
			return boolVal(BVSle(b, a))
		}
		return boolVal(BVUle(b, a))
	}
	fail("%s: integer binop %s", fx.fn, op)
	return Val{}
}

func convInt(x *Term, from, to types.Type) *Term {
	w := widthOf(to)
	if x.Sort.W == w {
		return x
	}
	if x.Sort.W > w {
		return Extract(w-1, 0, x)
	}
	if isSigned(from) {
		return SignExt(x, w)
	}
	return ZeroExt(x, w)
}

func (fx *fnExec) convert(x Val, to types.Type, st *State, pos token.Pos) Val {
	ex := fx.ex
	from := x.T
	fu, tu := from.Underlying(), to.Underlying()
	if isInteger(from) && isInteger(to) {
		return scalar(to, convInt(x.S(), from, to))
	}
	switch t := tu.(type) {
	case *types.Basic:
		if t.Info()&types.IsString != 0 {
			switch f := fu.(type) {
			case *types.Slice: // string(bytes)
				if widthOf(f.Elem()) == 8 {
					row := Select(st.heapGet(elemKey(f.Elem(), 0), ArraySort(IntSort, StrArr)), x.C[0])
					return Val{T: to, C: []*Term{row, x.C[1], x.C[2]}}
				}
				if widthOf(f.Elem()) == 32 {
					// string([]rune): abstract UTF-8 encoding: between one and four bytes per rune; exact
					// (one byte per rune, same value) when every rune is ASCII
					arr := Fresh("runesstr", StrArr)
					ln := Fresh("runeslen", BV64)
					n := x.C[2]
					erow := Select(st.heapGet(elemKey(f.Elem(), 0), ArraySort(IntSort, ArraySort(BV64, BVSort(32)))), x.C[0])
					j := Fresh("j", BV64)
					inb := And(BVSle(BVI(0, 64), j), BVSlt(j, n))
					rj := Select(erow, BVAdd(x.C[1], j))
					asciiJ := BVUlt(rj, BVI(0x80, 32))
					allASCII := Forall([]*Term{j}, Implies(inb, asciiJ), rj)
					k := Fresh("k", BV64)
					inbK := And(BVSle(BVI(0, 64), k), BVSlt(k, n))
					rk := Select(erow, BVAdd(x.C[1], k))
					same := Forall([]*Term{k}, Implies(inbK, Eq(Select(arr, k), Extract(7, 0, rk))), Select(arr, k))
					ex.assume(st, And(BVSle(n, ln), BVSle(ln, BVMul(BVI(4, 64), n)),
						Implies(allASCII, And(Eq(ln, n), same))))
					ex.Dropped["string([]rune): UTF-8 encoding abstract for non-ASCII runes (length between n and 4n)"] = true
					return Val{T: to, C: []*Term{arr, BVI(0, 64), ln}}
				}
			case *types.Basic:
				if f.Info()&types.IsString != 0 {
					x.T = to
					return x
				}
				if f.Info()&types.IsInteger != 0 {
					// string(rune): exact for ASCII, abstract otherwise
					r := toBV64(x)
					arr := Fresh("runestr", StrArr)
					ln := Fresh("runelen", BV64)
					ascii := And(BVSle(BVI(0, 64), r), BVSlt(r, BVI(128, 64)))
					ex.assume(st, And(BVSle(BVI(1, 64), ln), BVSle(ln, BVI(4, 64)),
						Implies(ascii, And(Eq(ln, BVI(1, 64)), Eq(Select(arr, BVI(0, 64)), Extract(7, 0, r)))),
						Implies(Not(ascii), BVUle(BVI(0x80, 8), Select(arr, BVI(0, 64))))))
					return Val{T: to, C: []*Term{arr, BVI(0, 64), ln}}
				}
			}
		}
		fb, _ := fu.(*types.Basic)
		if t.Info()&types.IsFloat != 0 || (fb != nil && fb.Info()&types.IsFloat != 0) {
			ex.Dropped["float conversion is uninterpreted"] = true
			srt := layout(to)[0]
			return scalar(to, App(DeclUF(fmt.Sprintf("fconv:%s:%s", typeName(from), typeName(to)), srt, x.S().Sort), x.S()))
		}
		if t.Kind() == types.UnsafePointer {
			fail("%s: unsafe.Pointer conversion", fx.fn)
		}
	case *types.Slice:
		if f, ok := fu.(*types.Basic); ok && f.Info()&types.IsString != 0 && widthOf(t.Elem()) == 8 {
			// []byte(s): fresh backing array holding a copy of s
			r := ex.newRef(st, "bytes")
			key := elemKey(t.Elem(), 0)
			st.heapSet(key, Store(st.heapGet(key, ArraySort(IntSort, StrArr)), r, x.C[0]))
			return Val{T: to, C: []*Term{r, x.C[1], x.C[2], x.C[2]}}
		}
		if _, ok := fu.(*types.Slice); ok {
			x.T = to
			return x
		}
	case *types.Pointer, *types.Signature, *types.Map, *types.Chan, *types.Struct, *types.Array, *types.Interface:
		x.T = to
		return x
	}
	fail("%s: conversion %v -> %v not supported", fx.fn, from, to)
	return Val{}
}

func (ex *Exec) strConcat(st *State, x, y Val, rt types.Type) Val {
	la, lb := x.C[2], y.C[2]
	if la.IsConst() && la.Val.Sign() == 0 {
		y.T = rt
		return y
	}
	if lb.IsConst() && lb.Val.Sign() == 0 {
		x.T = rt
		return x
	}
	// the concatenation is a function of its operands (two concatenations of the same strings are the
	// same term), defined pointwise by an axiom added once per application
	arr := App(DeclUF("$cat", StrArr, StrArr, BV64, BV64, StrArr, BV64, BV64), x.C[0], x.C[1], la, y.C[0], y.C[1], lb)
	if !ex.embSeen[arr] {
		ex.embSeen[arr] = true
		j := Fresh("qj", BV64)
		body := Eq(Select(arr, j), Ite(BVSlt(j, la), Select(x.C[0], BVAdd(x.C[1], j)), Select(y.C[0], BVAdd(y.C[1], BVSub(j, la)))))
		ex.Assume = append(ex.Assume, closeOverSpecBound(Forall([]*Term{j}, body, Select(arr, j))))
	}
	return Val{T: rt, C: []*Term{arr, BVI(0, 64), BVAdd(la, lb)}}
}

// ---- interfaces ----

func (ex *Exec) makeIface(it types.Type, v Val) Val {
	if _, ok := v.T.Underlying().(*types.Interface); ok {
		v.T = it
		return v
	}
	tag := ex.typeTag(v.T)
	ls := layout(v.T)
	if len(ls) == 1 && ls[0] == IntSort {
		return Val{T: it, C: []*Term{tag, v.C[0]}}
	}
	if len(ls) == 0 { // empty struct
		return Val{T: it, C: []*Term{tag, IntC(1)}}
	}
	tn := typeName(v.T)
	box := DeclUF("$box:"+tn, IntSort, ls...)
	p := App(box, v.C...)
	if !ex.embSeen[p] {
		ex.embSeen[p] = true
		var conj []*Term
		for k, s := range ls {
			ub := DeclUF(fmt.Sprintf("$unbox:%s#%d", tn, k), s, IntSort)
			conj = append(conj, Eq(App(ub, p), v.C[k]))
		}
		conj = append(conj, IntLt(IntC(0), p))
		ex.Assume = append(ex.Assume, And(conj...))
	}
	return Val{T: it, C: []*Term{tag, p}}
}

func (ex *Exec) unbox(t types.Type, payload *Term) Val {
	ls := layout(t)
	if len(ls) == 1 && ls[0] == IntSort {
		return Val{T: t, C: []*Term{payload}}
	}
	tn := typeName(t)
	c := make([]*Term, len(ls))
	for k, s := range ls {
		ub := DeclUF(fmt.Sprintf("$unbox:%s#%d", tn, k), s, IntSort)
		c[k] = App(ub, payload)
	}
	// surjectivity instance: boxing the unboxed components gives the payload back
	if len(ls) > 0 {
		box := DeclUF("$box:"+tn, IntSort, ls...)
		key := App(box, c...)
		if !ex.embSeen[key] {
			ex.embSeen[key] = true
			// only valid when the payload really is a box of this type; guarded by the caller's tag test
		}
	}
	return Val{T: t, C: c}
}

func (fx *fnExec) typeAssert(in *ssa.TypeAssert, st *State) {
	ex := fx.ex
	x := fx.value(in.X, st)
	at := in.AssertedType
	var ok *Term
	var v Val
	if _, isIface := at.Underlying().(*types.Interface); isIface {
		// interface-to-interface assertion: succeeds iff dynamic type implements it (uninterpreted on the tag)
		impl := DeclUF("$implements:"+typeName(at), BoolSort, IntSort)
		ok = And(Neq(x.C[0], IntC(0)), App(impl, x.C[0]))
		// known concrete tags: decide statically where possible
		v = Val{T: at, C: []*Term{x.C[0], x.C[1]}}
		ex.Dropped["interface-to-interface type assertion to "+typeName(at)+" is uninterpreted on the dynamic type"] = true
	} else {
		ok = Eq(x.C[0], ex.typeTag(at))
		v = ex.unbox(at, x.C[1])
		tv := typeInv(v, 0)
		s2 := *st
		s2.Reach = And(st.Reach, ok)
		ex.assumeAll(&s2, tv)
		ex.assumeHeapWF(&s2, v)
	}
	if in.CommaOk {
		zero := zeroVal(at)
		nc := make([]*Term, len(v.C))
		for k := range v.C {
			nc[k] = Ite(ok, v.C[k], zero.C[k])
		}
		st.Regs[in] = Val{T: in.Type(), Tuple: []Val{{T: at, C: nc}, boolVal(ok)}}
		return
	}
	fx.nopanic("assert", st, ok, in.Pos())
	st.Regs[in] = v
}

// ---- slicing ----

func (fx *fnExec) slice(in *ssa.Slice, st *State) {
	x := fx.value(in.X, st)
	z := BVI(0, 64)
	get := func(v ssa.Value) *Term {
		if v == nil {
			return nil
		}
		return toBV64(fx.value(v, st))
	}
	lo, hi, mx := get(in.Low), get(in.High), get(in.Max)
	if lo == nil {
		lo = z
	}
	switch u := x.T.Underlying().(type) {
	case *types.Basic: // string
		if hi == nil {
			hi = x.C[2]
		}
		fx.nopanic("slice", st, And(BVSle(z, lo), BVSle(lo, hi), BVSle(hi, x.C[2])), in.Pos())
		st.Regs[in] = Val{T: in.Type(), C: []*Term{x.C[0], BVAdd(x.C[1], lo), BVSub(hi, lo)}}
	case *types.Slice:
		if hi == nil {
			hi = x.C[2]
		}
		capv := x.C[3]
		if mx != nil {
			fx.nopanic("slice", st, And(BVSle(z, lo), BVSle(lo, hi), BVSle(hi, mx), BVSle(mx, capv)), in.Pos())
			capv = mx
		} else {
			fx.nopanic("slice", st, And(BVSle(z, lo), BVSle(lo, hi), BVSle(hi, capv)), in.Pos())
		}
		st.Regs[in] = Val{T: in.Type(), C: []*Term{x.C[0], BVAdd(x.C[1], lo), BVSub(hi, lo), BVSub(capv, lo)}}
	case *types.Pointer:
		at := u.Elem().Underlying().(*types.Array)
		mp := fx.ex.resolve(fx.ptrOf(x, st, in.Pos(), true))
		if mp.Kind != PArr || len(mp.Path) != 0 {
			fail("%s: slicing an array that is not a heap object (kind %d)", fx.fn, mp.Kind)
		}
		n := BVI(at.Len(), 64)
		if hi == nil {
			hi = n
		}
		capv := n
		if mx != nil {
			fx.nopanic("slice", st, And(BVSle(z, lo), BVSle(lo, hi), BVSle(hi, mx), BVSle(mx, n)), in.Pos())
			capv = mx
		} else {
			fx.nopanic("slice", st, And(BVSle(z, lo), BVSle(lo, hi), BVSle(hi, n)), in.Pos())
		}
		st.Regs[in] = Val{T: in.Type(), C: []*Term{mp.Ref, lo, BVSub(hi, lo), BVSub(capv, lo)}}
	default:
		fail("%s: slice of %v", fx.fn, x.T)
	}
}

// ---- lookup (string index, map) ----

func (fx *fnExec) lookup(in *ssa.Lookup, st *State) {
	x := fx.value(in.X, st)
	if b, ok := x.T.Underlying().(*types.Basic); ok && b.Info()&types.IsString != 0 {
		idx := toBV64(fx.value(in.Index, st))
		fx.nopanic("index", st, And(BVSle(BVI(0, 64), idx), BVSlt(idx, x.C[2])), in.Pos())
		st.Regs[in] = scalar(in.Type(), Select(x.C[0], BVAdd(x.C[1], idx)))
		return
	}
	fx.mapLookup(in, x, st)
}

// ---- maps ----

// mapKeyTerm encodes a map key as a single term (scalar keys directly; strings and
// composite keys through an injective uninterpreted encoding is not available, so unsupported).
func (fx *fnExec) mapKeyTerm(k Val) *Term {
	if len(k.C) == 1 {
		return k.C[0]
	}
	if b, ok := k.T.Underlying().(*types.Basic); ok && b.Info()&types.IsString != 0 {
		return fx.ex.strID(k)
	}
	if st, ok := k.T.Underlying().(*types.Struct); ok {
		// struct key: an uninterpreted encoding of the field keys (equal keys get equal codes; distinct
		// keys may collide in a model, which only adds behaviours)
		var args []*Term
		var sorts []*Sort
		for i := 0; i < st.NumFields(); i++ {
			ft := fieldOf(k, i)
			var t *Term
			if len(ft.C) == 1 {
				t = ft.C[0]
			} else if b, ok := ft.T.Underlying().(*types.Basic); ok && b.Info()&types.IsString != 0 {
				t = fx.ex.strID(ft)
			} else {
				fail("%s: map key type %v not supported (field %d)", fx.fn, k.T, i)
			}
			args = append(args, t)
			sorts = append(sorts, t.Sort)
		}
		u := DeclUF("$key:"+typeName(k.T), IntSort, sorts...)
		return App(u, args...)
	}
	fail("%s: map key type %v not supported", fx.fn, k.T)
	return nil
}

// strID maps a string to an abstract identity: equal strings have equal ids (functional
// consistency is obtained by hashing on the defining triple only when syntactically equal;
// semantic equality implies id equality via an axiom instance per pair seen).
func (ex *Exec) strID(s Val) *Term {
	u := DeclUF("$strid", IntSort, StrArr, BV64, BV64)
	id := App(u, s.C[0], s.C[1], s.C[2])
	// the identity of a string used as a map key is its content: for every pair of key strings met
	// in the unit, equal identities <==> equal contents (pairwise, capped to keep queries small)
	if !ex.embSeen[id] {
		ex.embSeen[id] = true
		if len(ex.strKeys) < 16 {
			for _, t := range ex.strKeys {
				tid := App(u, t.C[0], t.C[1], t.C[2])
				ex.Assume = append(ex.Assume, closeOverSpecBound(And(Implies(Eq(id, tid), strEq(s, t)), Implies(strEq(s, t), Eq(id, tid)))))
			}
			ex.strKeys = append(ex.strKeys, s)
		}
	}
	return id
}

func mapSorts(mt *types.Map) (ks *Sort, vs []*Sort) {
	kl := layout(mt.Key())
	if len(kl) == 1 {
		ks = kl[0]
	} else {
		ks = IntSort
	}
	return ks, layout(mt.Elem())
}

func mapHasKey(mt *types.Map) string { return "MH:" + typeName(mt) }
func mapValKey(mt *types.Map, k int) string {
	return fmt.Sprintf("MV:%s#%d", typeName(mt), k)
}

func (fx *fnExec) initMap(st *State, t types.Type, r *Term) Val {
	mt := t.Underlying().(*types.Map)
	ks, vs := mapSorts(mt)
	hk := mapHasKey(mt)
	hs := ArraySort(IntSort, ArraySort(ks, BoolSort))
	st.heapSet(hk, Store(st.heapGet(hk, hs), r, ConstArr(ArraySort(ks, BoolSort), False)))
	for k, s := range vs {
		key := mapValKey(mt, k)
		srt := ArraySort(IntSort, ArraySort(ks, s))
		st.heapSet(key, Store(st.heapGet(key, srt), r, ConstArr(ArraySort(ks, s), zeroTerm(s))))
	}
	return Val{T: t, C: []*Term{r}}
}

func (fx *fnExec) mapLookup(in *ssa.Lookup, m Val, st *State) {
	mt := m.T.Underlying().(*types.Map)
	ks, vs := mapSorts(mt)
	key := fx.mapKeyTerm(fx.value(in.Index, st))
	has := Select(Select(st.heapGet(mapHasKey(mt), ArraySort(IntSort, ArraySort(ks, BoolSort))), m.C[0]), key)
	has = And(Neq(m.C[0], IntC(0)), has)
	c := make([]*Term, len(vs))
	for k, s := range vs {
		raw := Select(Select(st.heapGet(mapValKey(mt, k), ArraySort(IntSort, ArraySort(ks, s))), m.C[0]), key)
		c[k] = Ite(has, raw, zeroTerm(s))
	}
	v := Val{T: mt.Elem(), C: c}
	s2 := *st
	s2.Reach = And(st.Reach, has)
	fx.ex.assumeAll(&s2, typeInv(v, 0))
	fx.ex.assumeHeapWF(&s2, v)
	if in.CommaOk {
		st.Regs[in] = Val{T: in.Type(), Tuple: []Val{v, boolVal(has)}}
	} else {
		st.Regs[in] = v
	}
}

func (fx *fnExec) mapUpdate(in *ssa.MapUpdate, st *State) {
	m := fx.value(in.Map, st)
	mt := m.T.Underlying().(*types.Map)
	ks, vs := mapSorts(mt)
	key := fx.mapKeyTerm(fx.value(in.Key, st))
	v := fx.value(in.Value, st)
	if v.Ptr != nil {
		v = fx.materialize(v)
	}
	fx.nopanic("nilmap", st, Neq(m.C[0], IntC(0)), in.Pos())
	hk := mapHasKey(mt)
	hs := ArraySort(IntSort, ArraySort(ks, BoolSort))
	h := st.heapGet(hk, hs)
	st.heapSet(hk, Store(h, m.C[0], Store(Select(h, m.C[0]), key, True)))
	fx.ex.mapLenStep(st, mt, Select(h, m.C[0]), Store(Select(h, m.C[0]), key, True), key, true)
	for k, s := range vs {
		kk := mapValKey(mt, k)
		srt := ArraySort(IntSort, ArraySort(ks, s))
		hv := st.heapGet(kk, srt)
		st.heapSet(kk, Store(hv, m.C[0], Store(Select(hv, m.C[0]), key, v.C[k])))
	}
}

// ---- range ----

type rangeState struct {
	x   Val
	pos *Term
}

func (fx *fnExec) rangeInit(in *ssa.Range, st *State) {
	x := fx.value(in.X, st)
	// iterator state: position cell kept as a pseudo-register value
	st.Regs[in] = Val{T: in.Type(), Tuple: []Val{x, intVal(BVI(0, 64))}}
}

func (fx *fnExec) rangeNext(in *ssa.Next, st *State) {
	it := fx.value(in.Iter, st)
	x, pos := it.Tuple[0], it.Tuple[1].S()
	if in.IsString {
		// abstract UTF-8 decoding: exact for bytes < 0x80
		ok := BVSlt(pos, x.C[2])
		b0 := Select(x.C[0], BVAdd(x.C[1], pos))
		ascii := BVUlt(b0, BVI(0x80, 8))
		width := Fresh("rw", BV64)
		r := Fresh("rune", BVSort(32))
		s2 := *st
		s2.Reach = And(st.Reach, ok)
		fx.ex.assume(&s2, And(
			Implies(ascii, And(Eq(width, BVI(1, 64)), Eq(r, ZeroExt(b0, 32)))),
			Implies(Not(ascii), And(BVSle(BVI(1, 64), width), BVSle(width, BVI(4, 64)), BVSle(BVAdd(pos, width), x.C[2]),
				BVSle(BVI(0x80, 32), r), BVSle(r, BVI(0x10FFFF, 32))))))
		fx.ex.Dropped["range over string: UTF-8 decoding abstract for bytes >= 0x80"] = true
		tup := in.Type().(*types.Tuple)
		st.Regs[in] = Val{T: in.Type(), Tuple: []Val{boolVal(ok), scalar(tup.At(1).Type(), pos), scalar(tup.At(2).Type(), r)}}
		// advance iterator
		st.Regs[in.Iter] = Val{T: it.T, Tuple: []Val{x, intVal(BVAdd(pos, width))}}
		return
	}
	// range over a map: every iteration visits an arbitrary present key (sound for safety and for
	// per-iteration facts; "every key is visited exactly once" is not modelled)
	mt, isMap := x.T.Underlying().(*types.Map)
	if !isMap {
		fail("%s: range over %v is not supported", fx.fn, x.T)
	}
	fx.ex.Dropped["range over map: each iteration visits an arbitrary present key; completeness of the visit is not modelled"] = true
	ks, vs := mapSorts(mt)
	ok := Fresh("mapnext_ok", BoolSort)
	tup := in.Type().(*types.Tuple)
	kv := freshVal("mapkey", mt.Key())
	var keyTerm *Term
	if len(kv.C) == 1 {
		keyTerm = kv.C[0]
	} else {
		keyTerm = fx.ex.strID(kv)
	}
	has := Select(Select(st.heapGet(mapHasKey(mt), ArraySort(IntSort, ArraySort(ks, BoolSort))), x.C[0]), keyTerm)
	s2 := *st
	s2.Reach = And(st.Reach, ok)
	fx.ex.assume(&s2, And(Neq(x.C[0], IntC(0)), has))
	fx.ex.assumeAll(&s2, typeInv(kv, 0))
	c := make([]*Term, len(vs))
	for k, s := range vs {
		c[k] = Select(Select(st.heapGet(mapValKey(mt, k), ArraySort(IntSort, ArraySort(ks, s))), x.C[0]), keyTerm)
	}
	vv := Val{T: mt.Elem(), C: c}
	fx.ex.assumeAll(&s2, typeInv(vv, 0))
	fx.ex.assumeHeapWF(&s2, vv)
	kOut, vOut := kv, vv
	if tup.At(1).Type() != nil {
		kOut.T = tup.At(1).Type()
	}
	if tup.At(2).Type() != nil {
		vOut.T = tup.At(2).Type()
	}
	if _, inv := tup.At(1).Type().(*types.Tuple); inv || len(layoutSafe(tup.At(1).Type())) == 0 {
		kOut = Val{T: tup.At(1).Type()}
	}
	if len(layoutSafe(tup.At(2).Type())) == 0 {
		vOut = Val{T: tup.At(2).Type()}
	}
	st.Regs[in] = Val{T: in.Type(), Tuple: []Val{boolVal(ok), kOut, vOut}}
}

var _ = big.NewInt

package main

// Native replay of a failed postcondition of a function whose parameters are scalars, strings or
// integer slices and whose results are scalars: the function is run on the model's inputs with
// go test -overlay, and the failed clause is evaluated on the inputs and the observed outputs by
// the engine's own (constant-folding) spec evaluator.

import (
	"fmt"
	"go/types"
	"math/big"
	"path/filepath"
	"regexp"
	"strings"

	"golang.org/x/tools/go/ssa"
)

func scalarResult(t types.Type) bool {
	b, ok := t.Underlying().(*types.Basic)
	return ok && b.Info()&(types.IsInteger|types.IsBoolean) != 0
}

var outRe = regexp.MustCompile(`REPLAY-OUT (\d+) (-?\d+|true|false|B\d+:[0-9a-f]*)`)

func replayPost(l *Loader, fn *ssa.Function, o *Obl, outDir string) ReplayResult {
	rr := ReplayResult{}
	pkg := fn.Pkg
	if pkg == nil || fn.Signature.Recv() != nil {
		rr.Note = "post replay supports package-level functions only"
		return rr
	}
	res := fn.Signature.Results()
	for i := 0; i < res.Len(); i++ {
		if !scalarResult(res.At(i).Type()) && !bytesResult(res.At(i).Type()) {
			rr.Note = "post replay needs scalar, string or byte-slice results"
			return rr
		}
	}
	c := l.contractFor(fn)
	if c == nil {
		rr.Note = "no contract"
		return rr
	}
	var nodes []*inNode
	var terms []*Term
	for _, in := range o.Inputs {
		n := inputSchema(in.V, 0)
		if n.kind == "ptr" || n.kind == "unsupported" || n.kind == "struct" {
			rr.Note = "post replay supports scalar, string and integer-slice parameters only"
			return rr
		}
		nodes = append(nodes, n)
		n.collect(&terms)
	}
	var small []*Term
	for _, in := range o.Inputs {
		small = append(small, sizeBounds(in.V)...)
	}
	as := coneOfInfluence(o.Assume, []*Term{o.Reach, o.Goal})
	as = append(as, o.Reach)
	file := filepath.Join(outDir, "replaypost_"+sanitize(o.Name)+".smt2")
	sres := race(Script(append(append([]*Term{}, as...), small...), o.Goal, true, terms), file, 20)
	if sres.verdict != "sat" {
		sres = race(Script(as, o.Goal, true, terms), file, 20)
		if sres.verdict != "sat" {
			rr.Note = "no model for replay (" + sres.verdict + ")"
			return rr
		}
	}
	raw := parseGetValue(sres.output)
	vals := make([]*big.Int, len(terms))
	for i := range terms {
		if i < len(raw) {
			if v, ok := parseSMTValue(raw[i]); ok {
				vals[i] = v
			}
		}
	}
	pos := 0
	var lits []string
	for _, n := range nodes {
		s, err := n.goLiteral(vals, &pos, pkg.Pkg)
		if err != nil {
			rr.Note = err.Error()
			return rr
		}
		lits = append(lits, s)
	}
	var sb strings.Builder
	fmt.Fprintf(&sb, "package %s\n\nimport (\n\t\"fmt\"\n\t\"testing\"\n)\n\n", pkg.Pkg.Name())
	fmt.Fprintf(&sb, "// replay of obligation %s\nfunc TestVerifReplay(t *testing.T) {\n", o.Name)
	sb.WriteString("\tdefer func() {\n\t\tif r := recover(); r != nil {\n\t\t\tfmt.Println(\"REPLAY-PANIC:\", r)\n\t\t}\n\t}()\n")
	var argn []string
	for i, s := range lits {
		fmt.Fprintf(&sb, "\tin%d := %s\n", i, s)
		argn = append(argn, fmt.Sprintf("in%d", i))
	}
	var rn []string
	for i := 0; i < res.Len(); i++ {
		rn = append(rn, fmt.Sprintf("r%d", i))
	}
	fmt.Fprintf(&sb, "\t%s := %s(%s)\n", strings.Join(rn, ", "), fn.Name(), strings.Join(argn, ", "))
	for i := 0; i < res.Len(); i++ {
		if bytesResult(res.At(i).Type()) {
			fmt.Fprintf(&sb, "\tfmt.Printf(\"REPLAY-OUT %d B%%d:%%x\\n\", len(r%d), []byte(r%d))\n", i, i, i)
			continue
		}
		b := res.At(i).Type().Underlying().(*types.Basic)
		switch {
		case b.Info()&types.IsBoolean != 0:
			fmt.Fprintf(&sb, "\tfmt.Println(\"REPLAY-OUT %d\", bool(r%d))\n", i, i)
		case b.Info()&types.IsUnsigned != 0:
			fmt.Fprintf(&sb, "\tfmt.Println(\"REPLAY-OUT %d\", uint64(r%d))\n", i, i)
		default:
			fmt.Fprintf(&sb, "\tfmt.Println(\"REPLAY-OUT %d\", int64(r%d))\n", i, i)
		}
	}
	sb.WriteString("}\n")
	src := sb.String()
	dir := filepath.Join(repoDir, strings.TrimPrefix(strings.TrimPrefix(pkg.Pkg.Path(), modPath), "/"))
	out, _ := runOverlayTest(dir, src, outDir, "TestVerifReplay")
	rr.File, rr.Output = src, out
	if strings.Contains(out, "REPLAY-PANIC:") {
		rr.Note = "the call panicked on the model input"
		rr.Confirmed = true
		return rr
	}
	ms := outRe.FindAllStringSubmatch(out, -1)
	if len(ms) != res.Len() {
		rr.Note = "replay test produced no result lines"
		return rr
	}
	// evaluate the failed clause on concrete inputs and outputs
	var verdict *Term
	var evalErr string
	func() {
		defer func() {
			if r := recover(); r != nil {
				evalErr = fmt.Sprint(r)
			}
		}()
		ex := NewExec(l, "replay")
		st := newState()
		env := &SpecEnv{ex: ex, st: st, old: st, vars: map[string]Val{}, fn: fn}
		// inputs: substitute model values into the symbolic input terms
		sub := map[*Term]*Term{}
		for i, t := range terms {
			if vals[i] == nil {
				continue
			}
			switch t.Sort.Kind {
			case KBool:
				sub[t] = BoolC(vals[i].Sign() != 0)
			case KBV:
				sub[t] = BVC(vals[i], t.Sort.W)
			case KInt:
				sub[t] = IntCB(vals[i])
			}
		}
		for _, in := range o.Inputs {
			env.vars[in.Name] = in.V
		}
		names := c.Results
		for i := 0; i < res.Len(); i++ {
			n := fmt.Sprintf("result%d", i)
			if i < len(names) {
				n = names[i]
			} else if res.At(i).Name() != "" {
				n = res.At(i).Name()
			}
			rt := res.At(i).Type()
			var v Val
			txt := ms[i][2]
			if strings.HasPrefix(txt, "B") {
				v = observedBytes(st, rt, txt, i)
			} else if txt == "true" || txt == "false" {
				v = boolVal(BoolC(txt == "true"))
				v.T = rt
			} else {
				bi, _ := new(big.Int).SetString(txt, 10)
				v = scalar(rt, BVC(bi, widthOf(rt)))
			}
			env.vars[n] = v
			if res.Len() == 1 {
				env.vars["result"] = v
			}
		}
		e, err := ParseSpecExpr(o.Src)
		if err != nil {
			evalErr = err.Error()
			return
		}
		t := env.evalBool(Clause{Expr: e, Src: o.Src, Line: "replay"})
		verdict = Subst(t, sub)
	}()
	if evalErr != "" || verdict == nil {
		rr.Note = "clause could not be evaluated on the concrete run: " + evalErr
		return rr
	}
	switch {
	case verdict.IsFalse():
		rr.Confirmed = true
		rr.Note = "clause evaluates to false on the inputs and the outputs observed on the real code"
	case verdict.IsTrue():
		rr.Note = "clause holds on the observed run (the model is an artefact of the abstraction)"
	default:
		// not constant after substitution (heap contents of slices beyond the replayed prefix, quantifiers)
		chk := race(Script(nil, verdict, false, nil), filepath.Join(outDir, "replaypost_eval.smt2"), 10)
		if chk.verdict == "sat" {
			rr.Confirmed = true
			rr.Note = "clause is falsifiable on the inputs and the outputs observed on the real code"
		} else {
			rr.Note = "clause not refuted on the observed run"
		}
	}
	return rr
}

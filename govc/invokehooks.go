package main

import (
	"strings"
	"fmt"
	"go/token"
	"go/types"
)

// invokeHooks evaluates `assert at call <method>` clauses for calls of interface methods that are
// neither devirtualised nor dispatched over the implementations (those go through callStatic and
// its hooks). The arguments are available as $<parameter name> and $0, $1, ... ($0 is the first
// argument after the receiver); the receiver is $recv.
func (fx *fnExec) invokeHooks(m *types.Func, recv Val, args []Val, st *State, pos token.Pos) {
	if fx.c == nil {
		return
	}
	sig, _ := m.Type().(*types.Signature)
	for i, a := range fx.c.Asserts {
		if a.Callee != m.Name() {
			continue
		}
		if !fx.invokeClauseApplies(a.Cond, nil, m, recv, args, st) {
			continue
		}
		k := fmt.Sprintf("assert:%d:%s", i, a.Callee)
		fx.callCount[k]++
		noteAssertFired(fx.c, i)
		if a.Nth != 0 && a.Nth != fx.callCount[k] {
			continue
		}
		env := fx.specEnv(st, fx.entry, nil)
		env.vars["$recv"] = recv
		for j := range args {
			env.vars[fmt.Sprintf("$%d", j)] = args[j]
			if sig != nil && j < sig.Params().Len() && sig.Params().At(j).Name() != "" {
				env.vars["$"+sig.Params().At(j).Name()] = args[j]
			}
		}
		t := env.evalBool(a.Cond)
		fx.oblige(fmt.Sprintf("assertcall.%s.%d#%d", a.Callee, i+1, fx.callCount[k]), "assertcall", st, t, pos, a.Cond.Src)
	}
	// ghost counters updated at the call of an interface method
	for gi, g := range fx.c.Ghost {
		if g.Callee != m.Name() {
			continue
		}
		if !fx.invokeClauseApplies(g.Delta, g.When, m, recv, args, st) {
			continue // written with the parameter names of a concrete implementation: not for this site
		}
		noteGhostFired(fx.c, gi)
		if g.After {
			fail("%s: `ghost ... after call %s`: %s is an interface method call that is not devirtualised here; use `at call`", fx.fn, g.Callee, g.Callee)
		}
		env := fx.specEnv(st, fx.entry, nil)
		env.vars["$recv"] = recv
		for j := range args {
			env.vars[fmt.Sprintf("$%d", j)] = args[j]
			if sig != nil && j < sig.Params().Len() && sig.Params().At(j).Name() != "" {
				env.vars["$"+sig.Params().At(j).Name()] = args[j]
			}
		}
		d := env.eval(g.Delta.Expr)
		dt := toBV64(env.coerce(d, tInt))
		if g.When != nil {
			dt = Ite(env.evalBool(*g.When), dt, BVI(0, 64))
		}
		cur, ok := st.Ghost[g.Name]
		if !ok {
			cur = BVI(0, 64)
		}
		st.Ghost[g.Name] = fx.ghostAdd(st, cur, dt)
	}
}

// assertFired records which `assert at call` clauses of a contract matched at least one call: a
// clause that never matches (misspelt callee, call not reachable in the subset) would otherwise be
// silently vacuous.
var assertFired = map[*Contract]map[int]bool{}

func noteAssertFired(c *Contract, i int) {
	if assertFired[c] == nil {
		assertFired[c] = map[int]bool{}
	}
	assertFired[c][i] = true
}

func checkAssertsFired(c *Contract) {
	for i, a := range c.Asserts {
		if !assertFired[c][i] {
			fail("assert at call %s (%s): no call of %s was met while executing the unit: the assertion would be vacuous", a.Callee, a.Cond.Line, a.Callee)
		}
	}
}

// ghostFired: like assertFired, for `ghost ... at|after call` clauses.
var ghostFired = map[*Contract]map[int]bool{}

func noteGhostFired(c *Contract, i int) {
	if ghostFired[c] == nil {
		ghostFired[c] = map[int]bool{}
	}
	ghostFired[c][i] = true
}

func checkGhostsFired(c *Contract) {
	for i, g := range c.Ghost {
		if !ghostFired[c][i] && ghostCountDemanded(c, g.Name) {
			// a postcondition demands a positive count unconditionally: with no matching call the
			// counter is 0 and that postcondition fails honestly, nothing is vacuous
			continue
		}
		if !ghostFired[c][i] {
			fail("ghost %s ... call %s: no call of %s was met while executing the unit: the counter would stay 0 (clauses over it would be vacuous or wrong)", g.Name, g.Callee, g.Callee)
		}
	}
}

// invokeClauseApplies: a call-site clause can be evaluated at an interface method call only if every
// $name it mentions is bound there ($0.., $recv, the interface method's parameter names). Clauses
// written with the parameter names of a concrete implementation apply to the devirtualised or
// dispatched calls of that implementation, not to the abstract interface call.
func (fx *fnExec) invokeClauseApplies(c Clause, when *Clause, m *types.Func, recv Val, args []Val, st *State) (ok bool) {
	sig, _ := m.Type().(*types.Signature)
	bound := map[string]bool{"$recv": true}
	for j := range args {
		bound[fmt.Sprintf("$%d", j)] = true
		if sig != nil && j < sig.Params().Len() && sig.Params().At(j).Name() != "" {
			bound["$"+sig.Params().At(j).Name()] = true
		}
	}
	ok = true
	var walk func(x *SExpr)
	walk = func(x *SExpr) {
		if x == nil {
			return
		}
		if x.Kind == "ident" && len(x.Name) > 0 && x.Name[0] == '$' && !bound[x.Name] {
			ok = false
		}
		for _, a := range x.Args {
			walk(a)
		}
	}
	walk(c.Expr)
	if when != nil {
		walk(when.Expr)
	}
	return ok
}

// ghostCountDemanded: some `ensures` clause is, as a whole, `ghost(name) == N` with a positive
// literal N (possibly the first conjunct of a conjunction).
func ghostCountDemanded(c *Contract, name string) bool {
	for _, cl := range c.Ensures {
		src := strings.ReplaceAll(cl.Src, " ", "")
		for _, conj := range strings.Split(src, "&&") {
			pre := "ghost(" + name + ")=="
			if strings.HasPrefix(conj, pre) {
				n := conj[len(pre):]
				if n != "" && n != "0" && strings.Trim(n, "0123456789") == "" {
					return true
				}
			}
		}
		// only top-level conjunctions count: an implication or disjunction anywhere disqualifies
		_ = src
	}
	return false
}

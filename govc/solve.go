package main

import (
	"bytes"
	"context"
	"fmt"
	"os"
	"os/exec"
	"path/filepath"
	"strings"
	"sync"
	"time"
)

type solverSpec struct {
	name string
	args func(file string, secs int) []string
}

var solvers = []solverSpec{
	{"z3-new", func(f string, s int) []string { return []string{"z3-new", "-smt2", fmt.Sprintf("-T:%d", s), f} }},
	{"z3", func(f string, s int) []string { return []string{"z3", "-smt2", fmt.Sprintf("-T:%d", s), f} }},
	{"cvc5", func(f string, s int) []string {
		return []string{"cvc5", "--produce-models", fmt.Sprintf("--tlimit=%d", s*1000), f}
	}},
}

type solveResult struct {
	verdict string // sat unsat unknown
	solver  string
	ms      int64
	output  string
}

// race runs all solvers on the script; the first sat/unsat answer wins.
func race(script string, file string, secs int) solveResult {
	if err := os.WriteFile(file, []byte(script), 0o644); err != nil {
		return solveResult{verdict: "unknown", output: err.Error()}
	}
	ctx, cancel := context.WithTimeout(context.Background(), time.Duration(secs+2)*time.Second)
	defer cancel()
	type r struct {
		res solveResult
	}
	ch := make(chan solveResult, len(solvers))
	start := time.Now()
	for _, s := range solvers {
		s := s
		go func() {
			a := s.args(file, secs)
			cmd := exec.CommandContext(ctx, a[0], a[1:]...)
			var out bytes.Buffer
			cmd.Stdout = &out
			cmd.Stderr = &out
			_ = cmd.Run()
			txt := out.String()
			first := strings.TrimSpace(strings.SplitN(txt, "\n", 2)[0])
			v := "unknown"
			if first == "sat" || first == "unsat" {
				v = first
			}
			ch <- solveResult{verdict: v, solver: s.name, ms: time.Since(start).Milliseconds(), output: txt}
		}()
	}
	var last solveResult
	var outs []string
	for i := 0; i < len(solvers); i++ {
		res := <-ch
		if res.verdict == "sat" || res.verdict == "unsat" {
			cancel()
			return res
		}
		outs = append(outs, res.solver+": "+strings.TrimSpace(firstLines(res.output, 3)))
		last = res
	}
	last.verdict = "unknown"
	last.solver = "none"
	last.ms = time.Since(start).Milliseconds()
	last.output = strings.Join(outs, "\n")
	return last
}

func firstLines(s string, n int) string {
	ls := strings.Split(s, "\n")
	if len(ls) > n {
		ls = ls[:n]
	}
	return strings.Join(ls, "\n")
}

// coneOfInfluence keeps the assumptions connected to the goal through shared symbols.
// coiNoHubs: allocation-set symbols do not count as links (used for the small-cone first attempt).
var coiNoHubs bool

func coneOfInfluence(assume []*Term, roots []*Term) []*Term {
	type info struct {
		t    *Term
		syms map[string]bool
		used bool
	}
	infos := make([]*info, 0, len(assume))
	symCache := map[*Term]map[string]bool{}
	symsOf := func(t *Term) map[string]bool {
		if s, ok := symCache[t]; ok {
			return s
		}
		s := map[string]bool{}
		FreeSyms(t, s, map[*Term]bool{})
		// initial-heap symbols and $ptag connect everything; they do not count as links
		for k := range s {
			if strings.HasPrefix(k, "uf:$ptag") {
				delete(s, k)
			}
			if coiNoHubs && (strings.Contains(k, "$alloc") || strings.Contains(k, "alloc_after")) {
				delete(s, k) // allocation sets link every heap fact to every other one
			}
		}
		symCache[t] = s
		return s
	}
	seenA := map[*Term]bool{}
	for _, a := range assume {
		if seenA[a] {
			continue
		}
		seenA[a] = true
		infos = append(infos, &info{t: a, syms: symsOf(a)})
	}
	live := map[string]bool{}
	for _, r := range roots {
		for k := range symsOf(r) {
			live[k] = true
		}
	}
	changed := true
	for changed {
		changed = false
		for _, in := range infos {
			if in.used {
				continue
			}
			hit := len(in.syms) == 0
			for k := range in.syms {
				if live[k] {
					hit = true
					break
				}
			}
			if hit {
				in.used = true
				changed = true
				for k := range in.syms {
					live[k] = true
				}
			}
		}
	}
	var out []*Term
	for _, in := range infos {
		if in.used {
			out = append(out, in.t)
		}
	}
	// literal axioms
	for k := range live {
		if ax, ok := litAxioms[k]; ok {
			out = append(out, ax...)
		}
	}
	return out
}

func modelTermsOf(inputs []NamedVal) ([]*Term, []string) {
	var ts []*Term
	var ns []string
	for _, in := range inputs {
		for k, c := range in.V.C {
			if c.Sort.Kind == KArray {
				continue
			}
			ts = append(ts, c)
			if len(in.V.C) > 1 {
				ns = append(ns, fmt.Sprintf("%s.%d", in.Name, k))
			} else {
				ns = append(ns, in.Name)
			}
		}
	}
	return ts, ns
}

// parseGetValue parses "((t v) (t v) ...)" into the list of value strings, in order.
func parseGetValue(out string) []string {
	i := strings.Index(out, "((")
	if i < 0 {
		return nil
	}
	s := out[i:]
	// tokenise s-expressions one level deep
	var vals []string
	depth := 0
	start := -1
	for j := 0; j < len(s); j++ {
		switch s[j] {
		case '(':
			depth++
			if depth == 2 {
				start = j
			}
		case ')':
			if depth == 2 && start >= 0 {
				pair := s[start+1 : j]
				vals = append(vals, lastSexp(pair))
				start = -1
			}
			depth--
			if depth == 0 {
				return vals
			}
		case '|':
			// skip quoted symbol
			k := strings.IndexByte(s[j+1:], '|')
			if k < 0 {
				return vals
			}
			j += k + 1
		}
	}
	return vals
}

// lastSexp returns the last top-level s-expression of a "term value" pair.
func lastSexp(p string) string {
	p = strings.TrimSpace(p)
	if p == "" {
		return ""
	}
	if p[len(p)-1] != ')' {
		i := strings.LastIndexAny(p, " \t\n")
		return p[i+1:]
	}
	depth := 0
	for j := len(p) - 1; j >= 0; j-- {
		switch p[j] {
		case ')':
			depth++
		case '(':
			depth--
			if depth == 0 {
				return p[j:]
			}
		}
	}
	return p
}

// discharge runs every obligation of the unit through the portfolio.
func discharge(obls []*Obl, outDir string, secs int, par int) {
	os.MkdirAll(outDir, 0o755)
	// obligations split per return site: solve the parts, then aggregate
	var flat []*Obl
	for _, o := range obls {
		if len(o.Subs) > 0 {
			flat = append(flat, o.Subs...)
		} else {
			flat = append(flat, o)
		}
	}
	dischargeFlat(flat, outDir, secs, par)
	for _, o := range obls {
		if len(o.Subs) == 0 {
			continue
		}
		o.Status, o.Solver, o.Ms = "discharged", "", 0
		for _, s := range o.Subs {
			o.Ms += s.Ms
			if o.Solver == "" || s.Solver != "syntactic" {
				o.Solver = s.Solver
			}
			switch {
			case s.Status == "failed" && o.Status != "failed":
				o.Status, o.Model, o.Output, o.Reach, o.Goal, o.Solver = "failed", s.Model, s.Output, s.Reach, s.Goal, s.Solver
				o.Candidate = s.Candidate
			case s.Status != "discharged" && o.Status == "discharged":
				o.Status, o.Output, o.Solver = "unknown", s.Output, s.Solver
			}
		}
		o.Trivial = false
	}
}

// qfCandidates enables the search for candidate counterexamples on weakened queries.
var qfCandidates = true

// instFirst: try the instantiated quantifier-free weakening of a query before the full query.
var instFirst = true

func dischargeFlat(obls []*Obl, outDir string, secs int, par int) {
	var wg sync.WaitGroup
	sem := make(chan struct{}, par)
	for i, o := range obls {
		if o.Solver == "callgraph" && o.Status != "" {
			continue // decided on the call graph, not by a solver
		}
		if o.Trivial && !o.ExpectSat {
			o.Status = "discharged"
			o.Solver = "syntactic"
			continue
		}
		if o.ExpectSat && len(o.Assume) == 0 && o.Reach.IsTrue() {
			o.Status = "cover-ok"
			o.Solver = "syntactic"
			continue
		}
		i, o := i, o
		// scripts are built sequentially (term tables are not thread safe)
		var script, script2, scriptInst, scriptSmall string
		var mnames []string
		if o.ExpectSat {
			// vacuity check over the quantifier-free assumptions (models of quantified formulas are
			// rarely found by the solvers; contradictory preconditions are quantifier-free in practice)
			var as []*Term
			for _, a := range o.Assume {
				if !hasQuantifier(a, map[*Term]bool{}) {
					as = append(as, a)
				}
			}
			as = append(as, litAxiomsFor(as, o.Reach)...)
			script = Script(append(as, o.Reach), nil, false, nil)
		} else {
			goalSk := skolemizeGoal(o.Goal)
			roots := []*Term{o.Reach, goalSk}
			as := coneOfInfluence(o.Assume, roots)
			as = append(as, groundInstances(append(append([]*Term{}, as...), o.Reach), []*Term{goalSk})...)
			if debugInst {
				fmt.Printf("inst: %s: %d assumptions after COI + instances\n", o.Name, len(as))
			}
			mts, ns := modelTermsOf(o.Inputs)
			mnames = ns
			goal := expandExists(goalSk, append(append([]*Term{}, as...), o.Reach))
			script = Script(append(as, o.Reach), goal, true, mts)
			if len(as) > 150 && !hasQuantifier(goal, map[*Term]bool{}) {
				// large unit: first try the part of the hypotheses that is linked to the goal without
				// going through the allocation sets, quantifier-free (a subset of the hypotheses: an
				// unsat answer discharges the obligation)
				coiNoHubs = true
				small := coneOfInfluence(o.Assume, roots)
				coiNoHubs = false
				if len(small) < len(as)*2/3 {
					var qf []*Term
					for _, a := range small {
						if !hasQuantifier(a, map[*Term]bool{}) {
							qf = append(qf, a)
						}
					}
					scriptSmall = Script(append(qf, o.Reach), goal, false, nil)
				}
			}
			if !hasQuantifier(goal, map[*Term]bool{}) && instFirst {
				// the same query without the quantified hypotheses (their ground instances stay): if this
				// weaker query is already unsat the obligation is discharged, and the solvers answer it fast
				var qf []*Term
				nq := 0
				for _, a := range as {
					if hasQuantifier(a, map[*Term]bool{}) {
						nq++
						continue
					}
					qf = append(qf, a)
				}
				if nq > 0 {
					scriptInst = Script(append(qf, o.Reach), goal, false, nil)
				}
			}
			if !hasQuantifier(goal, map[*Term]bool{}) {
				var qf []*Term
				nq := 0
				for _, a := range as {
					if hasQuantifier(a, map[*Term]bool{}) {
						nq++
						continue
					}
					qf = append(qf, a)
				}
				if nq > 0 {
					script2 = Script(append(qf, o.Reach), goal, true, mts)
				}
			}
		}
		wg.Add(1)
		sem <- struct{}{}
		go func() {
			defer wg.Done()
			defer func() { <-sem }()
			file := filepath.Join(outDir, fmt.Sprintf("%03d_%s.smt2", i, sanitize(o.Name)))
			if scriptSmall != "" {
				r0 := race(scriptSmall, file+".small.smt2", 4)
				os.Remove(file + ".small.smt2")
				if r0.verdict == "unsat" {
					o.Status, o.Solver, o.Ms = "discharged", r0.solver+"+smallcone", r0.ms
					return
				}
			}
			if scriptInst != "" {
				t := secs / 3
				if t > 10 {
					t = 10
				}
				if t < 2 {
					t = 2
				}
				r0 := race(scriptInst, file+".inst.smt2", t)
				if !debugInst {
					os.Remove(file + ".inst.smt2")
				}
				if r0.verdict == "unsat" {
					o.Status, o.Solver, o.Ms = "discharged", r0.solver+"+inst", r0.ms
					return
				}
			}
			budget := secs
			if o.Secs > budget {
				budget = o.Secs
			}
			res := race(script, file, budget)
			o.Solver, o.Ms = res.solver, res.ms
			if o.ExpectSat {
				switch res.verdict {
				case "sat":
					o.Status = "cover-ok"
				case "unsat":
					o.Status = "cover-vacuous"
				default:
					o.Status = "cover-unknown"
				}
				o.Output = firstLines(res.output, 5)
				if o.Status == "cover-ok" {
					os.Remove(file)
				}
				return
			}
			switch res.verdict {
			case "unsat":
				o.Status = "discharged"
				if os.Getenv("GOVC_KEEP") == "" {
					os.Remove(file)
				}
			case "sat":
				o.Status = "failed"
				o.Output = res.output
				vals := parseGetValue(res.output)
				o.Model = map[string]string{}
				for k, n := range mnames {
					if k < len(vals) {
						o.Model[n] = vals[k]
					}
				}
			default:
				o.Status = "unknown"
				o.Output = res.output
				if script2 != "" && qfCandidates {
					// no answer: look for a candidate counterexample without the quantified assumptions.
					// The query is weaker, so a model is only a candidate; it counts only if it replays
					// on the real code.
					r2 := race(script2, file+".qf.smt2", 5)
					if r2.verdict == "sat" {
						o.Status = "failed"
						o.Solver = r2.solver + "(qf-candidate)"
						o.Output = "candidate model from the quantifier-free part of the query (original query: " + firstLines(res.output, 2) + ")\n" + r2.output
						vals := parseGetValue(r2.output)
						o.Model = map[string]string{}
						for k, n := range mnames {
							if k < len(vals) {
								o.Model[n] = vals[k]
							}
						}
						o.Candidate = true
					}
					os.Remove(file + ".qf.smt2")
				}
			}
		}()
	}
	wg.Wait()
}

func litAxiomsFor(ts []*Term, extra *Term) []*Term {
	syms := map[string]bool{}
	seen := map[*Term]bool{}
	for _, t := range ts {
		FreeSyms(t, syms, seen)
	}
	if extra != nil {
		FreeSyms(extra, syms, seen)
	}
	var out []*Term
	for k := range syms {
		if ax, ok := litAxioms[k]; ok {
			out = append(out, ax...)
		}
	}
	return out
}

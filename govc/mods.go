package main

import (
	"fmt"
	"go/ast"
	"go/constant"
	"go/token"
	"go/types"
	"strings"

	"golang.org/x/tools/go/ssa"
)

// ---- loop mod-sets through calls ----

func (fx *fnExec) callMods(in ssa.CallInstruction, allocs map[*ssa.Alloc]bool, keys map[string]bool, depth int,
	scan func(fn *ssa.Function, blocks map[*ssa.BasicBlock]bool, depth int)) {
	ex := fx.ex
	cc := in.Common()
	if b, ok := cc.Value.(*ssa.Builtin); ok {
		switch b.Name() {
		case "append":
			keys[allocKey] = true
			if sl, ok := cc.Args[0].Type().Underlying().(*types.Slice); ok {
				fx.keysOfElem(sl.Elem(), keys)
			}
		case "copy", "clear":
			if sl, ok := cc.Args[0].Type().Underlying().(*types.Slice); ok {
				fx.keysOfElem(sl.Elem(), keys)
			}
		case "delete":
			keys["map:"+typeName(cc.Args[0].Type())] = true
		}
		return
	}
	argHavoc := func() {
		for _, a := range cc.Args {
			switch u := a.Type().Underlying().(type) {
			case *types.Slice:
				fx.keysOfElem(u.Elem(), keys)
			case *types.Pointer:
				fx.modTargets(a, allocs, keys)
			}
		}
		keys[allocKey] = true
	}
	havocAllMod := func() {
		mine := map[string]bool{}
		for k := range ex.HavocCallsC.HavocExceptKeys {
			mine["!"+k] = true
		}
		if !keys[havocAllKey] {
			keys[havocAllKey] = true
			for k := range mine {
				keys[k] = true
			}
			return
		}
		for k := range keys {
			if len(k) > 0 && k[0] == '!' && !mine[k] {
				delete(keys, k)
			}
		}
	}
	var callees []*ssa.Function
	if cc.IsInvoke() {
		if named, ok := cc.Value.Type().(*types.Named); ok && named.Obj().Pkg() != nil && strings.HasPrefix(named.Obj().Pkg().Path(), modPath) {
			for _, im := range ex.implementations(named, cc.Method) {
				callees = append(callees, im.Fn)
			}
		}
		if len(callees) == 0 {
			if ex.HavocCallsC != nil {
				havocAllMod()
				return
			}
			argHavoc()
			return
		}
	} else if callee := cc.StaticCallee(); callee != nil {
		callees = []*ssa.Function{callee}
	} else {
		// closure value: find MakeClosure in the same function if possible
		if ex.HavocCallsC != nil {
			havocAllMod()
			return
		}
		argHavoc()
		return
	}
	for _, callee := range callees {
		name := callee.String()
		if noopFuncs[name] {
			continue
		}
		if _, ok := stdModels[name]; ok {
			keys[allocKey] = true
			continue
		}
		c := ex.L.contractFor(callee)
		if c != nil && c.Pure {
			continue
		}
		if ex.HavocCallsC != nil && ex.AbstractNames[callee.Name()] {
			havocAllMod()
			continue
		}
		if c != nil && !c.Inline && !c.Lemma && !(ex.useBody(callee) && callee.Blocks != nil) {
			if c.HavocAll {
				ex.havocAllKeys(fx, c, callee, keys)
			}
			ex.contractModKeys(fx, c, callee, keys)
			continue
		}
		if callee.Blocks == nil || depth > 6 {
			if ex.HavocCallsC != nil {
				havocAllMod()
				continue
			}
			argHavoc()
			continue
		}
		path := pkgPathOf(callee)
		if ex.HavocCallsC != nil {
			// same decision as at the call: not inlinable -> abstracted by whole-heap havoc
			inl := (c != nil && c.Inline) || inlinePkgs[path] || callee.Parent() != nil || ex.useBody(callee)
			if !inl && inRepo(callee) && !hasLoops(callee) && len(callee.Blocks) <= havocInlineBlocks {
				inl = true
			}
			if _, isClo := cc.Value.(*ssa.MakeClosure); isClo {
				inl = true
			}
			if !inl {
				havocAllMod()
				continue
			}
		}
		if (c != nil && c.Inline) || inlinePkgs[path] || inRepo(callee) {
			// pointer arguments to locals of the caller
			for _, a := range cc.Args {
				if _, ok := a.Type().Underlying().(*types.Pointer); ok {
					switch a.(type) {
					case *ssa.Alloc, *ssa.FieldAddr, *ssa.IndexAddr:
						// an address taken here: what the callee stores through it lands in this local,
						// field or element
						fx.modTargets(a, allocs, keys)
					}
					// a pointer value (parameter, loaded pointer): the callee's own stores through it
					// are found by scanning the callee
				}
			}
			if mc, ok := cc.Value.(*ssa.MakeClosure); ok {
				for _, b := range mc.Bindings {
					fx.modTargets(b, allocs, keys)
				}
			}
			scan(callee, nil, depth+1)
			continue
		}
		argHavoc()
	}
}

// contractModKeys resolves the modifies clauses of a contract at the type level.
func (ex *Exec) contractModKeys(fx *fnExec, c *Contract, callee *ssa.Function, keys map[string]bool) {
	ptypes := map[string]types.Type{}
	for i, p := range callee.Params {
		if i < len(c.Params) {
			ptypes[c.Params[i]] = p.Type()
		}
		ptypes[p.Name()] = p.Type()
	}
	var typeOf func(x *SExpr) types.Type
	typeOf = func(x *SExpr) types.Type {
		switch x.Kind {
		case "ident":
			return ptypes[x.Name]
		case "select":
			bt := typeOf(x.Args[0])
			if bt == nil {
				return nil
			}
			if p, ok := bt.Underlying().(*types.Pointer); ok {
				bt = p.Elem()
			}
			path := embeddedPath(bt, x.Name, 0)
			if path == nil {
				return nil
			}
			for _, i := range path {
				bt = bt.Underlying().(*types.Struct).Field(i).Type()
			}
			return bt
		case "index":
			bt := typeOf(x.Args[0])
			if bt == nil {
				return nil
			}
			switch u := bt.Underlying().(type) {
			case *types.Slice:
				return u.Elem()
			case *types.Array:
				return u.Elem()
			}
		}
		return nil
	}
	for _, m := range c.Modifies {
		x := m.Expr
		switch x.Kind {
		case "select":
			bt := typeOf(x.Args[0])
			if bt == nil && x.Args[0].Kind == "ident" && callee.Pkg != nil {
				// T.f: type-level frame
				if tn, ok := callee.Pkg.Pkg.Scope().Lookup(x.Args[0].Name).(*types.TypeName); ok {
					bt = tn.Type()
				}
			}
			if bt == nil {
				fail("cannot resolve modifies target %q of %s at the type level", m.Src, c.Key)
			}
			if p, ok := bt.Underlying().(*types.Pointer); ok {
				bt = p.Elem()
			}
			path := embeddedPath(bt, x.Name, 0)
			if path == nil {
				fail("cannot resolve modifies target %q of %s", m.Src, c.Key)
			}
			cur := bt
			for n, i := range path {
				ft := cur.Underlying().(*types.Struct).Field(i).Type()
				if n == len(path)-1 {
					if isStruct(ft) {
						fx.keysOfObject(ft, keys)
					} else if at, ok := ft.Underlying().(*types.Array); ok {
						fx.keysOfElem(at.Elem(), keys)
					} else {
						for k, srt := range layout(ft) {
							keys[fldKey(structName(cur), i, k)] = true
							keySortHint[fldKey(structName(cur), i, k)] = ArraySort(IntSort, srt)
						}
					}
				}
				cur = ft
			}
		case "unary":
			bt := typeOf(x.Args[0])
			if bt != nil {
				if p, ok := bt.Underlying().(*types.Pointer); ok {
					fx.keysOfObject(p.Elem(), keys)
				}
			}
		case "call":
			if len(x.Args) == 2 {
				bt := typeOf(x.Args[1])
				if bt != nil {
					if sl, ok := bt.Underlying().(*types.Slice); ok {
						fx.keysOfElem(sl.Elem(), keys)
					}
				}
			}
		case "ident":
			if bt := ptypes[x.Name]; bt != nil {
				if p, ok := bt.Underlying().(*types.Pointer); ok {
					fx.keysOfObject(p.Elem(), keys)
				}
			} else if callee.Pkg != nil {
				if g, ok := callee.Pkg.Members[x.Name].(*ssa.Global); ok {
					for k, srt := range layout(g.Type().(*types.Pointer).Elem()) {
						keys[globKey(g, k)] = true
						keySortHint[globKey(g, k)] = srt
					}
				}
			}
		}
	}
	res := callee.Signature.Results()
	for i := 0; i < res.Len() && (len(c.Modifies) > 0 || c.Allocates); i++ {
		switch u := res.At(i).Type().Underlying().(type) {
		case *types.Slice:
			keys[allocKey] = true
			fx.keysOfElem(u.Elem(), keys)
		case *types.Pointer:
			keys[allocKey] = true
			if isStruct(u.Elem()) {
				fx.keysOfObject(u.Elem(), keys)
			}
		}
	}
}

// ---- package-level variables ----

// mutableGlobals[pkg] = set of globals that may be written or whose address escapes outside init.
var mutableGlobals = map[*ssa.Package]map[*ssa.Global]bool{}

func (ex *Exec) globalsOf(p *ssa.Package) map[*ssa.Global]bool {
	if m, ok := mutableGlobals[p]; ok {
		return m
	}
	m := map[*ssa.Global]bool{}
	mutableGlobals[p] = m
	var visitFn func(fn *ssa.Function)
	var classify func(v ssa.Value, g *ssa.Global, isInit bool)
	classify = func(v ssa.Value, g *ssa.Global, isInit bool) {
		refs := v.Referrers()
		if refs == nil {
			return
		}
		for _, r := range *refs {
			switch r := r.(type) {
			case *ssa.UnOp:
				// load
			case *ssa.FieldAddr:
				classify(r, g, isInit)
			case *ssa.IndexAddr:
				classify(r, g, isInit)
			case *ssa.Store:
				if r.Addr == v {
					if !isInit {
						m[g] = true
					}
				} else {
					m[g] = true // address stored somewhere
				}
			case *ssa.DebugRef:
			default:
				m[g] = true
			}
		}
	}
	visitFn = func(fn *ssa.Function) {
		isInit := fn.Name() == "init" || strings.HasPrefix(fn.Name(), "init#")
		for _, b := range fn.Blocks {
			for _, in := range b.Instrs {
				for _, op := range in.Operands(nil) {
					g, ok := (*op).(*ssa.Global)
					if !ok || g.Pkg != p {
						continue
					}
					switch r := in.(type) {
					case *ssa.UnOp:
					case *ssa.FieldAddr:
						classify(r, g, isInit)
					case *ssa.IndexAddr:
						classify(r, g, isInit)
					case *ssa.Store:
						if r.Addr == g {
							if !isInit {
								m[g] = true
							}
						} else {
							m[g] = true
						}
					case *ssa.DebugRef:
					default:
						m[g] = true
					}
				}
			}
		}
		for _, a := range fn.AnonFuncs {
			visitFn(a)
		}
	}
	for _, mem := range p.Members {
		switch mm := mem.(type) {
		case *ssa.Function:
			visitFn(mm)
		case *ssa.Type:
			for _, t := range []types.Type{mm.Type(), types.NewPointer(mm.Type())} {
				ms := ex.L.Prog.MethodSets.MethodSet(t)
				for i := 0; i < ms.Len(); i++ {
					if fn := ex.L.Prog.MethodValue(ms.At(i)); fn != nil && fn.Pkg == p {
						visitFn(fn)
					}
				}
			}
		}
	}
	return m
}

// constGlobal returns the value of a package-level variable that is never written after
// initialisation and whose initialiser is a compile-time evaluable expression; else nil.
func (ex *Exec) constGlobal(g *ssa.Global) *Val {
	if v, ok := ex.globConst[g]; ok {
		return v
	}
	ex.globConst[g] = nil
	if g.Pkg == nil {
		return nil
	}
	if ex.Hidden[g.Name()] && !ex.globalsOf(g.Pkg)[g] {
		hv := ex.hiddenGlobal(g)
		ex.globConst[g] = hv
		return hv
	}
	if ex.globalsOf(g.Pkg)[g] {
		return nil
	}
	t := g.Type().(*types.Pointer).Elem()
	init, info := ex.L.globalInit(g)
	if init == nil {
		if info != nil {
			// declared without initialiser and never written: zero value
			z := zeroVal(t)
			ex.globConst[g] = &z
			return &z
		}
		return nil
	}
	v, ok := ex.evalInit(init, info, t, g.Name())
	if !ok {
		// immutable but unknown value: a fixed symbolic constant (sentinel errors etc.)
		sv := ex.sentinel(g, t, init, info)
		ex.globConst[g] = sv
		return sv
	}
	ex.globConst[g] = &v
	return &v
}

func (ex *Exec) sentinel(g *ssa.Global, t types.Type, init ast.Expr, info *types.Info) *Val {
	name := fmt.Sprintf("glob:%s.%s", g.Pkg.Pkg.Path(), g.Name())
	ls := layout(t)
	c := make([]*Term, len(ls))
	for k, s := range ls {
		c[k] = Var(fmt.Sprintf("%s#%d", name, k), s)
	}
	v := Val{T: t, C: c}
	if _, isIface := t.Underlying().(*types.Interface); isIface {
		// initialised by a constructor call or composite: non-nil, and distinct from other sentinels
		id := int64(ex.tagOf(name))
		if call, ok := init.(*ast.CallExpr); ok {
			fn := types.ExprString(call.Fun)
			if fn == "errors.New" || fn == "fmt.Errorf" {
				v.C[0] = IntC(int64(ex.tagOf("*errors.errorString")))
				v.C[1] = IntC(-id - 1000)
				return &v
			}
		}
		if tv, ok := info.Types[init]; ok && tv.Type != nil {
			if _, isI := tv.Type.Underlying().(*types.Interface); !isI {
				v.C[0] = ex.typeTag(tv.Type)
				if cl, ok := init.(*ast.CompositeLit); ok {
					if ev, ok := ex.evalInit(cl, info, tv.Type, g.Name()); ok {
						iv := ex.makeIface(t, ev)
						return &iv
					}
				}
				return &v
			}
		}
		ex.Assume = append(ex.Assume, IntLt(IntC(0), v.C[0]))
	}
	ex.Assume = append(ex.Assume, typeInv(v, 0)...)
	return &v
}

func (ex *Exec) evalInit(e ast.Expr, info *types.Info, t types.Type, hint string) (Val, bool) {
	if tv, ok := info.Types[e]; ok && tv.Value != nil {
		if b, ok := t.Underlying().(*types.Basic); ok {
			_ = b
			return constVal(t, tv.Value), true
		}
		if _, isIface := t.Underlying().(*types.Interface); isIface && tv.Type != nil {
			if bb, ok := tv.Type.Underlying().(*types.Basic); ok && bb.Info()&types.IsUntyped == 0 {
				return ex.makeIface(t, constVal(tv.Type, tv.Value)), true
			}
		}
		return Val{}, false
	}
	switch e := e.(type) {
	case *ast.ParenExpr:
		return ex.evalInit(e.X, info, t, hint)
	case *ast.CompositeLit:
		switch u := t.Underlying().(type) {
		case *types.Array:
			return ex.evalArrayLit(e, info, t, u.Elem(), hint)
		case *types.Struct:
			v := zeroVal(t)
			for i, el := range e.Elts {
				idx := i
				var ve ast.Expr = el
				if kv, ok := el.(*ast.KeyValueExpr); ok {
					name := kv.Key.(*ast.Ident).Name
					found := false
					for j := 0; j < u.NumFields(); j++ {
						if u.Field(j).Name() == name {
							idx = j
							found = true
						}
					}
					if !found {
						return Val{}, false
					}
					ve = kv.Value
				}
				fv, ok := ex.evalInit(ve, info, u.Field(idx).Type(), hint)
				if !ok {
					return Val{}, false
				}
				v = withField(v, idx, fv)
			}
			return v, true
		case *types.Slice:
			// static backing array: a fixed allocated reference whose initial contents are known
			arrT := types.NewArray(u.Elem(), int64(len(e.Elts)))
			av, ok := ex.evalArrayLit(e, info, arrT, u.Elem(), hint)
			if !ok {
				return Val{}, false
			}
			n := litLen(e, info)
			ref := IntC(int64(-ex.tagOf("static:"+hint+fmt.Sprint(e.Pos())) - 10))
			for k, srt := range layout(u.Elem()) {
				h0 := initialHeap(elemKey(u.Elem(), k), ArraySort(IntSort, ArraySort(BV64, srt)))
				ex.Assume = append(ex.Assume, Eq(mk("select", "", ArraySort(BV64, srt), nil, h0, ref), av.C[k]))
			}
			ex.Dropped["static slice literal "+hint+": contents assumed unmodified since initialisation"] = true
			return Val{T: t, C: []*Term{ref, BVI(0, 64), BVI(n, 64), BVI(n, 64)}}, true
		}
	case *ast.UnaryExpr:
		if e.Op == token.SUB || e.Op == token.XOR || e.Op == token.NOT {
			return Val{}, false
		}
	case *ast.CallExpr:
		// conversion T(x) of a constant handled above (tv.Value); anything else unknown
		if len(e.Args) == 1 {
			if tv, ok := info.Types[e.Fun]; ok && tv.IsType() {
				inner, ok := ex.evalInit(e.Args[0], info, t, hint)
				if ok {
					inner.T = t
					return inner, true
				}
			}
		}
	case *ast.Ident:
		if e.Name == "nil" {
			return zeroVal(t), true
		}
	}
	return Val{}, false
}

func litLen(e *ast.CompositeLit, info *types.Info) int64 {
	var n, max int64
	for _, el := range e.Elts {
		if kv, ok := el.(*ast.KeyValueExpr); ok {
			if tv, ok := info.Types[kv.Key]; ok && tv.Value != nil {
				if i, ok := constant.Int64Val(constant.ToInt(tv.Value)); ok {
					n = i
				}
			}
		}
		n++
		if n > max {
			max = n
		}
	}
	return max
}

func (ex *Exec) evalArrayLit(e *ast.CompositeLit, info *types.Info, t types.Type, et types.Type, hint string) (Val, bool) {
	z := zeroVal(et)
	c := make([]*Term, len(z.C))
	for k, zc := range z.C {
		c[k] = ConstArr(ArraySort(BV64, zc.Sort), zc)
	}
	var n int64
	for _, el := range e.Elts {
		var ve ast.Expr = el
		if kv, ok := el.(*ast.KeyValueExpr); ok {
			tv, ok := info.Types[kv.Key]
			if !ok || tv.Value == nil {
				return Val{}, false
			}
			i, ok := constant.Int64Val(constant.ToInt(tv.Value))
			if !ok {
				return Val{}, false
			}
			n = i
			ve = kv.Value
		}
		ev, ok := ex.evalInit(ve, info, et, hint)
		if !ok {
			// composite literal element with elided type
			if cl, isCl := ve.(*ast.CompositeLit); isCl {
				ev, ok = ex.evalInit(cl, info, et, hint)
			}
			if !ok {
				return Val{}, false
			}
		}
		for k := range c {
			c[k] = Store(c[k], BVI(n, 64), ev.C[k])
		}
		n++
	}
	return Val{T: t, C: c}, true
}

package main

import (
	"fmt"
	"go/types"

	"golang.org/x/tools/go/ssa"
)

// Contract flag `function` (only meaningful on trusted contracts without `modifies`): the callee is
// a deterministic function of its arguments. Every result component is additionally assumed equal
// to an uninterpreted function of the flattened arguments, so that two calls with the same
// arguments (one in the code, one in a `pure` spec function or lemma harness) agree.
//
// Flattening: scalars contribute their term; strings (array, offset, length); slices the heap rows
// of their elements, offset and length (not the capacity, not the reference); struct values their
// fields recursively; a pointer to a struct the reference and the pointee's fields one level deep.
// Anything deeper (pointer inside pointee, maps, interfaces) is rejected: the flag cannot be used.

func (fx *fnExec) funcArgTerms(st *State, t types.Type, comps []*Term, depth int, out *[]*Term) error {
	switch u := t.Underlying().(type) {
	case *types.Basic:
		*out = append(*out, comps...)
		return nil
	case *types.Slice:
		for k, srt := range layout(u.Elem()) {
			key := elemKey(u.Elem(), k)
			h := st.heapGet(key, ArraySort(IntSort, ArraySort(BV64, srt)))
			*out = append(*out, Select(h, comps[0]))
		}
		*out = append(*out, comps[1], comps[2])
		return nil
	case *types.Struct:
		off := 0
		for i := 0; i < u.NumFields(); i++ {
			ft := u.Field(i).Type()
			n := len(layout(ft))
			if err := fx.funcArgTerms(st, ft, comps[off:off+n], depth, out); err != nil {
				return err
			}
			off += n
		}
		return nil
	case *types.Array:
		*out = append(*out, comps...)
		return nil
	case *types.Pointer:
		*out = append(*out, comps[0])
		if _, ok := u.Elem().Underlying().(*types.Struct); ok {
			if depth > 0 {
				return nil // deeper pointees are not part of the argument view: only the reference
			}
			v := fx.ex.loadObj(st, u.Elem(), comps[0])
			return fx.funcArgTerms(st, u.Elem(), v.C, depth+1, out)
		}
		return nil
	}
	return fmt.Errorf("parameter type %v", t)
}

// functionalResult returns result i of a `function` callee as applications of uninterpreted
// functions to the flattened arguments (the terms themselves, not fresh names tied to them by an
// assumption: the result must stay a function of bound variables when evaluated under a binder).
func (fx *fnExec) functionalResult(callee *ssa.Function, args []Val, i int, shape Val, pre *State) Val {
	var flat []*Term
	for j, a := range args {
		if a.T == nil || len(a.C) == 0 {
			continue
		}
		if err := fx.funcArgTerms(pre, a.T, a.C, 0, &flat); err != nil {
			fail("%s: contract flag `function` on %s: argument %d: %v is not supported", fx.fn, callee, j, err)
		}
	}
	var sorts []*Sort
	for _, t := range flat {
		sorts = append(sorts, t.Sort)
	}
	name := callee.String()
	out := Val{T: shape.T, C: make([]*Term, len(shape.C))}
	for k, comp := range shape.C {
		u := DeclUF(fmt.Sprintf("fn:%s#%d.%d", name, i, k), comp.Sort, sorts...)
		out.C[k] = App(u, flat...)
	}
	fx.ex.TrustedUsed["function: "+name+" assumed to be a deterministic function of its arguments"] = true
	return out
}

func (fx *fnExec) assumeFunctional(c *Contract, callee *ssa.Function, args []Val, rvals []Val, pre *State, st *State) {
	var flat []*Term
	for i, a := range args {
		if a.T == nil || len(a.C) == 0 {
			continue
		}
		if err := fx.funcArgTerms(pre, a.T, a.C, 0, &flat); err != nil {
			fail("%s: contract flag `function` on %s: argument %d: %v is not supported", fx.fn, callee, i, err)
		}
	}
	var sorts []*Sort
	for _, t := range flat {
		sorts = append(sorts, t.Sort)
	}
	name := callee.String()
	for i, rv := range rvals {
		for k, comp := range rv.C {
			u := DeclUF(fmt.Sprintf("fn:%s#%d.%d", name, i, k), comp.Sort, sorts...)
			fx.ex.assume(st, Eq(comp, App(u, flat...)))
		}
	}
	fx.ex.TrustedUsed["function: "+name+" assumed to be a deterministic function of its arguments"] = true
}

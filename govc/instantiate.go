package main

// Engine-side quantifier instantiation. The SMT solvers rewrite bit-vector terms before
// E-matching (zero_extend and bvand become concat/extract), so triggers over select terms with
// bit-vector index arithmetic often never fire. The engine therefore adds ground instances itself,
// by matching select/UF sub-terms of quantified assumptions against the ground terms of the query
// on its own (un-normalised) term DAG. The quantified assumptions stay in the query as well;
// added instances are consequences of them, so this only helps completeness.

// isTriggerOp: sub-terms that may serve as instantiation triggers: array reads, uninterpreted
// functions, and the non-linear bit-vector operations (for arithmetic lemmas brought in by `uses`).
func isTriggerOp(op string) bool {
	switch op {
	case "select", "app", "bvsrem", "bvurem", "bvsdiv", "bvudiv", "bvmul":
		return true
	}
	return false
}

type qsite struct {
	q     *Term   // the forall term
	guard []*Term // conditions under which it holds
}

// findForalls collects universally quantified facts in positive positions of an assumption.
func findForalls(t *Term, guard []*Term, out *[]qsite) {
	switch t.Op {
	case "forall":
		*out = append(*out, qsite{t, guard})
	case "=>":
		g2 := append(append([]*Term{}, guard...), t.Args[0])
		findForalls(t.Args[1], g2, out)
	case "and":
		for _, a := range t.Args {
			findForalls(a, guard, out)
		}
	}
}

func containsAny(t *Term, vars map[*Term]bool, memo map[*Term]bool) bool {
	if v, ok := memo[t]; ok {
		return v
	}
	r := false
	if t.Op == "var" && vars[t] {
		r = true
	} else {
		for _, a := range t.Args {
			if containsAny(a, vars, memo) {
				r = true
				break
			}
		}
	}
	memo[t] = r
	return r
}

func varsIn(t *Term, vars map[*Term]bool, found map[*Term]bool, seen map[*Term]bool) {
	if seen[t] {
		return
	}
	seen[t] = true
	if t.Op == "var" && vars[t] {
		found[t] = true
	}
	for _, a := range t.Args {
		varsIn(a, vars, found, seen)
	}
}

// triggersOf returns select/app sub-terms of the body that mention every bound variable.
func triggersOf(q *Term) []*Term {
	bound := map[*Term]bool{}
	for _, b := range q.Bound {
		bound[b] = true
	}
	var out []*Term
	seen := map[*Term]bool{}
	memo := map[*Term]bool{}
	var walk func(t *Term)
	walk = func(t *Term) {
		if seen[t] {
			return
		}
		seen[t] = true
		if t.Op == "forall" || t.Op == "exists" {
			return // do not look inside nested quantifiers
		}
		if isTriggerOp(t.Op) && containsAny(t, bound, memo) {
			found := map[*Term]bool{}
			varsIn(t, bound, found, map[*Term]bool{})
			if len(found) == len(bound) {
				out = append(out, t)
			}
		}
		for _, a := range t.Args {
			walk(a)
		}
	}
	walk(q.Args[0])
	return out
}

func matchTerm(pat, g *Term, bound map[*Term]bool, b map[*Term]*Term, memo map[*Term]bool) bool {
	if pat.Op == "var" && bound[pat] {
		if cur, ok := b[pat]; ok {
			return cur == g
		}
		if pat.Sort != g.Sort {
			return false
		}
		b[pat] = g
		return true
	}
	if !containsAny(pat, bound, memo) {
		return pat == g
	}
	if pat.Op != g.Op || pat.Name != g.Name || pat.Sort != g.Sort || len(pat.Args) != len(g.Args) {
		// bvadd(x, i) against x: i = 0
		if pat.Op == "bvadd" && len(pat.Args) == 2 && pat.Args[0] == g && pat.Args[1].Op == "var" && bound[pat.Args[1]] {
			z := BVI(0, pat.Sort.W)
			if cur, ok := b[pat.Args[1]]; ok {
				return cur == z
			}
			b[pat.Args[1]] = z
			return true
		}
		return false
	}
	for i := range pat.Args {
		if pat.Op == "ite" && i == 0 {
			// Conditions often differ by path conditions folded in while a spec function was inlined.
			// Any instance of a quantified fact is a sound consequence, so matching may be lenient here:
			// the branches determine the binding; a binding found in the condition is kept only if consistent.
			trial := map[*Term]*Term{}
			for k, v := range b {
				trial[k] = v
			}
			if matchTerm(pat.Args[0], g.Args[0], bound, trial, memo) {
				for k, v := range trial {
					b[k] = v
				}
			}
			continue
		}
		if !matchTerm(pat.Args[i], g.Args[i], bound, b, memo) {
			return false
		}
	}
	return true
}

// groundInstances returns instances of the quantified assumptions for the ground terms of the query.
func groundInstances(assume []*Term, roots []*Term) []*Term {
	var sites []qsite
	for _, a := range assume {
		findForalls(a, nil, &sites)
	}
	if len(sites) == 0 {
		return nil
	}
	var out []*Term
	seenInst := map[*Term]bool{}
	allTerms := append(append([]*Term{}, assume...), roots...)
	for round := 0; round < instRounds; round++ {
		// ground select/app terms, outside quantifier bodies
		var grounds []*Term
		seen := map[*Term]bool{}
		// all variables bound by any quantifier of the query: ground terms must not mention them
		allBound := map[*Term]bool{}
		{
			s2 := map[*Term]bool{}
			var pre func(t *Term)
			pre = func(t *Term) {
				if s2[t] {
					return
				}
				s2[t] = true
				for _, b := range t.Bound {
					allBound[b] = true
				}
				for _, a := range t.Args {
					pre(a)
				}
			}
			for _, t := range allTerms {
				pre(t)
			}
		}
		gmemo := map[*Term]bool{}
		var collect func(t *Term)
		collect = func(t *Term) {
			if seen[t] {
				return
			}
			seen[t] = true
			if isTriggerOp(t.Op) && !containsAny(t, allBound, gmemo) {
				grounds = append(grounds, t)
				// read over write: select(store(A, i, v), j) also reads A at j (when i != j); the
				// quantified facts usually speak about A
				if t.Op == "select" {
					a, depth := t.Args[0], 0
					for a.Op == "store" && depth < 8 {
						a = a.Args[0]
						depth++
					}
					if depth > 0 {
						collect(Select(a, t.Args[1]))
					}
				}
			}
			for _, a := range t.Args {
				collect(a) // also inside quantifier bodies: closed sub-terms there are ground terms
			}
		}
		for _, t := range allTerms {
			collect(t)
		}
		var added []*Term
		for _, s := range sites {
			bound := map[*Term]bool{}
			for _, bv := range s.q.Bound {
				bound[bv] = true
			}
			memo := map[*Term]bool{}
			trigs := triggersOf(s.q)
			if len(trigs) == 0 && len(s.q.Bound) == 2 {
				// no single sub-term mentions both variables (pairwise facts such as
				// forall j k. j < k ==> s[j].end < s[k].start): candidate values per variable
				// from single-variable triggers, combined as a (capped) cross product
				for _, inst := range crossInstances(s, grounds) {
					if inst.IsTrue() || seenInst[inst] {
						continue
					}
					seenInst[inst] = true
					added = append(added, inst)
					if len(out)+len(added) > 600 {
						return append(out, added...)
					}
				}
			}
			for _, trig := range trigs {
				for _, g := range grounds {
					if g.Op != trig.Op || g.Sort != trig.Sort {
						continue
					}
					b := map[*Term]*Term{}
					if !matchTerm(trig, g, bound, b, memo) || len(b) != len(bound) {
						continue
					}
					inst := Subst(s.q.Args[0], b)
					if len(s.guard) > 0 {
						inst = Implies(And(s.guard...), inst)
					}
					if inst.IsTrue() || seenInst[inst] {
						continue
					}
					seenInst[inst] = true
					added = append(added, inst)
					if len(out)+len(added) > 600 {
						return append(out, added...)
					}
				}
			}
		}
		if len(added) == 0 {
			break
		}
		out = append(out, added...)
		allTerms = append(allTerms, added...)
		// instances may contain further quantified facts
		for _, a := range added {
			findForalls(a, nil, &sites)
		}
	}
	return out
}

// expandExists rewrites every existential sub-term  exists k. B(k)  of t into the equivalent
// B(g1) || ... || B(gn) || exists k. B(k)  for ground instances g found by trigger matching
// against the ground terms of the query. The rewriting is an equivalence, so it is valid in any
// polarity; it hands the solvers the witnesses they rarely find by themselves.
func expandExists(t *Term, context []*Term) *Term {
	if !hasQuantifier(t, map[*Term]bool{}) {
		return t
	}
	// ground trigger terms of the whole query
	allTerms := append(append([]*Term{}, context...), t)
	allBound := map[*Term]bool{}
	{
		s2 := map[*Term]bool{}
		var pre func(x *Term)
		pre = func(x *Term) {
			if s2[x] {
				return
			}
			s2[x] = true
			for _, b := range x.Bound {
				allBound[b] = true
			}
			for _, a := range x.Args {
				pre(a)
			}
		}
		for _, x := range allTerms {
			pre(x)
		}
	}
	var grounds []*Term
	seen := map[*Term]bool{}
	gmemo := map[*Term]bool{}
	var collect func(x *Term)
	collect = func(x *Term) {
		if seen[x] {
			return
		}
		seen[x] = true
		if isTriggerOp(x.Op) && !containsAny(x, allBound, gmemo) {
			grounds = append(grounds, x)
		}
		for _, a := range x.Args {
			collect(a)
		}
	}
	for _, x := range allTerms {
		collect(x)
	}
	cache := map[*Term]*Term{}
	var rec func(x *Term) *Term
	rec = func(x *Term) *Term {
		if r, ok := cache[x]; ok {
			return r
		}
		r := x
		if x.Op == "exists" {
			bound := map[*Term]bool{}
			for _, bv := range x.Bound {
				bound[bv] = true
			}
			memo := map[*Term]bool{}
			var insts []*Term
			seenI := map[*Term]bool{}
			for _, trig := range triggersOf(x) {
				for _, g := range grounds {
					if g.Op != trig.Op || g.Sort != trig.Sort {
						continue
					}
					b := map[*Term]*Term{}
					if !matchTerm(trig, g, bound, b, memo) || len(b) != len(bound) {
						continue
					}
					in := Subst(x.Args[0], b)
					if !seenI[in] && len(insts) < 40 {
						seenI[in] = true
						insts = append(insts, in)
					}
				}
			}
			if len(insts) > 0 {
				r = Or(append(insts, x)...)
			}
		} else if len(x.Args) > 0 && x.Op != "forall" {
			na := make([]*Term, len(x.Args))
			changed := false
			for i, a := range x.Args {
				na[i] = rec(a)
				if na[i] != a {
					changed = true
				}
			}
			if changed {
				r = rebuild(x, na, x.Pats)
			}
		}
		cache[x] = r
		return r
	}
	return rec(t)
}

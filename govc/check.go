package main

import (
	"encoding/json"
	"fmt"
	"os"
	"path/filepath"
	"sort"
	"strconv"
	"strings"
	"time"
)

type KnownFinding struct {
	Property   string `json:"property"`
	Status     string `json:"status"` // known | fixed
	Obligation string `json:"obligation"`
	Region     string `json:"region,omitempty"` // spec expression over the unit's inputs; empty = whole obligation
	What       string `json:"what"`
	Commit     string `json:"commit,omitempty"`
}

func loadKnown() []KnownFinding {
	b, err := os.ReadFile("/verif/known_findings.json")
	if err != nil {
		return nil
	}
	var k []KnownFinding
	if err := json.Unmarshal(b, &k); err != nil {
		fmt.Fprintln(os.Stderr, "known_findings.json:", err)
		os.Exit(2)
	}
	return k
}

func loadBaseline() map[string]bool {
	m := map[string]bool{}
	b, err := os.ReadFile("/verif/baseline/obligations.json")
	if err != nil {
		loadBaselineDir(m)
		return m
	}
	var names map[string][]string
	if json.Unmarshal(b, &names) == nil {
		for _, l := range names {
			for _, n := range l {
				m[n] = true
			}
		}
	}
	loadBaselineDir(m)
	return m
}

// loadBaselineDir adds the per-property baseline files baseline/<id>.json (a list of names).
func loadBaselineDir(m map[string]bool) {
	files, _ := filepath.Glob("/verif/baseline/C*.json")
	for _, f := range files {
		b, err := os.ReadFile(f)
		if err != nil {
			continue
		}
		var l []string
		if json.Unmarshal(b, &l) == nil {
			for _, n := range l {
				m[n] = true
			}
		}
	}
}

type oblEvidence struct {
	Name   string `json:"name"`
	Kind   string `json:"kind"`
	Unit   string `json:"unit"`
	Status string `json:"status"`
	Solver string `json:"solver,omitempty"`
	Ms     int64  `json:"ms"`
	Src    string `json:"clause,omitempty"`
	Pos    string `json:"pos,omitempty"`
}

func cmdCheck(args []string) int {
	tier := os.Getenv("VERIF_TIER")
	if tier == "" {
		tier = "quick"
	}
	var id string
	updateBaseline := false
	for i := 0; i < len(args); i++ {
		switch {
		case args[i] == "--tier" && i+1 < len(args):
			tier = args[i+1]
			i++
		case args[i] == "--update-baseline":
			updateBaseline = true
		default:
			id = args[i]
		}
	}
	seed := 0
	if s := os.Getenv("VERIF_SEED"); s != "" {
		seed, _ = strconv.Atoi(s)
	}
	props := loadProps()
	spec := props[id]
	if spec == nil {
		fmt.Fprintf(os.Stderr, "unknown property %s\n", id)
		return 2
	}
	t0 := time.Now()
	secs := 10
	if tier == "thorough" {
		secs = 60
	}
	outDir := fmt.Sprintf("/verif/out/%s.%d", id, os.Getpid())
	os.MkdirAll(outDir, 0o755)
	var pats []string
	for _, p := range spec.Packages {
		pats = append(pats, p)
	}
	l, err := Load(pats...)
	if err != nil {
		fmt.Printf("UNDECIDED property=%s reason=load-error\n%v\n", id, err)
		writeEvidence(id, tier, seed, spec, nil, nil, time.Since(t0).Seconds(), 0, []string{"load error: " + err.Error()}, nil)
		return 2
	}
	loadS := time.Since(t0).Seconds()
	known := loadKnown()
	baseline := loadBaseline()
	var results []*UnitResult
	units := append([]string{}, spec.Units...)
	if tier == "thorough" {
		units = append(units, spec.Thorough...)
		units = append(units, spec.ThoroughUnits...)
	}
	for _, u := range units {
		p, k := splitUnit(u)
		r := verifyUnit(l, p, k)
		results = append(results, r)
		if r.Err == "" {
			qfCandidates = false // first pass: an undecided query is retried with a larger budget before a weaker query is tried
			discharge(r.Obls, outDir, secs, 6)
			qfCandidates = true
			// a solver timeout is not a verdict: retry undecided obligations once with three times the budget
			var again []*Obl
			for _, o := range r.Obls {
				if !o.ExpectSat && o.Status == "unknown" {
					again = append(again, o)
				}
			}
			if len(again) > 0 {
				discharge(again, outDir, 3*secs, 4)
			}
		}
	}
	violations, undecided := 0, 0
	var knownLines []string
	var allObls []*Obl
	var notes []string
	for _, r := range results {
		if r.Err != "" {
			fmt.Printf("UNDECIDED property=%s unit=%s reason=%s\n", id, r.Name, oneLine(r.Err))
			undecided++
			notes = append(notes, "engine error in "+r.Name+": "+r.Err)
			continue
		}
		for _, o := range r.Obls {
			allObls = append(allObls, o)
			if o.ExpectSat {
				if o.Status == "cover-vacuous" {
					fmt.Printf("UNDECIDED property=%s obligation=%s reason=vacuous-assumptions\n", id, o.Name)
					undecided++
				}
				continue
			}
			if o.Status == "discharged" {
				continue
			}
			// known finding?
			if kf := matchKnown(known, id, o.Name); kf != nil {
				ok, why := recheckOutsideRegion(l, r, o, kf, outDir, secs)
				if ok {
					o.Status = "discharged-outside-known-region"
					o.KnownRegion = kf.Region
					knownLines = append(knownLines, fmt.Sprintf("KNOWN-FINDING: property=%s %s [obligation %s, region %s]", id, kf.What, o.Name, regionStr(kf.Region)))
					continue
				}
				notes = append(notes, "known finding "+kf.Obligation+" did not cover the failure: "+why)
			}
			// violation or undecided
			rp := filepath.Join("/verif/replays", id, sanitize(o.Name)+".txt")
			os.MkdirAll(filepath.Dir(rp), 0o755)
			var rr ReplayResult
			if o.Status == "failed" {
				rr = replayFor(l, spec, r, o, outDir)
			}
			writeReplayFile(rp, id, o, rr)
			switch {
			case o.Status == "failed" && rr.Confirmed:
				fmt.Printf("VIOLATION property=%s replay=%s obligation=%s\n", id, rp, o.Name)
				violations++
			case o.Status == "failed" && !o.Candidate:
				fmt.Printf("VIOLATION property=%s replay=%s obligation=%s no-failing-input-found\n", id, rp, o.Name)
				violations++
			case baseline[o.Name] || baseline[baseOblName(o.Name)]:
				// (a changed control-flow graph renumbers the path copies `name~2`, `name~3` of an
				// obligation: the clause itself was discharged on the unchanged tree)
				fmt.Printf("VIOLATION property=%s replay=%s obligation=%s no-failing-input-found\n", id, rp, o.Name)
				violations++
			default:
				fmt.Printf("UNDECIDED property=%s obligation=%s reason=solver-%s\n", id, o.Name, o.Status)
				undecided++
			}
		}
	}
	sort.Strings(knownLines)
	seen := map[string]bool{}
	for _, kl := range knownLines {
		if !seen[kl] {
			fmt.Println(kl)
			seen[kl] = true
		}
	}
	wall := time.Since(t0).Seconds()
	writeEvidence(id, tier, seed, spec, results, allObls, wall, violations, notes, knownLines)
	if updateBaseline && violations == 0 && undecided == 0 {
		updateBaselineFile(id, allObls)
	}
	n, d := 0, 0
	for _, o := range allObls {
		if !o.ExpectSat {
			n++
			if strings.HasPrefix(o.Status, "discharged") {
				d++
			}
		}
	}
	fmt.Printf("property %s: %d/%d obligations discharged in %d units, load %.1fs, total %.1fs, violations=%d undecided=%d\n", id, d, n, len(results), loadS, wall, violations, undecided)
	if violations > 0 {
		return 1
	}
	if undecided > 0 {
		return 2
	}
	os.RemoveAll(outDir)
	return 0
}

func regionStr(r string) string {
	if r == "" {
		return "whole obligation"
	}
	return r
}

func oneLine(s string) string {
	s = strings.ReplaceAll(s, "\n", " ")
	if len(s) > 300 {
		s = s[:300]
	}
	return s
}

func matchKnown(known []KnownFinding, id, obl string) *KnownFinding {
	for i := range known {
		k := &known[i]
		if k.Property == id && k.Status == "known" && k.Obligation == obl {
			return k
		}
	}
	return nil
}

// recheckOutsideRegion re-proves the obligation with the known failing input region excluded.
func recheckOutsideRegion(l *Loader, r *UnitResult, o *Obl, kf *KnownFinding, outDir string, secs int) (bool, string) {
	if kf.Region == "" {
		return true, ""
	}
	e, err := ParseSpecExpr(kf.Region)
	if err != nil {
		return false, "region does not parse: " + err.Error()
	}
	var region *Term
	func() {
		defer func() {
			if rec := recover(); rec != nil {
				err = fmt.Errorf("%v", rec)
			}
		}()
		env := &SpecEnv{ex: r.Exec, st: newState(), old: newState(), vars: map[string]Val{}, fn: r.Fn}
		for _, in := range o.Inputs {
			env.vars[in.Name] = in.V
		}
		region = env.evalBool(Clause{Expr: e, Src: kf.Region, Line: "known_findings.json"})
	}()
	if err != nil {
		return false, "region does not evaluate: " + err.Error()
	}
	o2 := *o
	o2.Assume = append(append([]*Term{}, o.Assume...), Not(region))
	o2.Name = o.Name + "@outside"
	o2.Status = ""
	o2.Subs = nil
	for _, s := range o.Subs {
		s2 := *s
		s2.Assume = append(append([]*Term{}, s.Assume...), Not(region))
		s2.Name = s.Name + "@outside"
		s2.Status = ""
		o2.Subs = append(o2.Subs, &s2)
	}
	discharge([]*Obl{&o2}, outDir, secs, 1)
	if o2.Status != "discharged" {
		// continue with the restricted obligation: its model and replay lie outside the known region
		o.Assume, o.Status, o.Model, o.Output, o.Solver = o2.Assume, o2.Status, o2.Model, o2.Output, o2.Solver
		o.Reach, o.Goal, o.Subs = o2.Reach, o2.Goal, nil
		return false, "obligation still fails outside the region (" + o2.Status + ")"
	}
	// the finding must still exist inside the region (otherwise the entry is stale; that is fine, but report it)
	return true, ""
}

func replayFor(l *Loader, spec *PropSpec, r *UnitResult, o *Obl, outDir string) ReplayResult {
	fn := r.Fn
	if fn == nil {
		return ReplayResult{Note: "no function"}
	}
	if r.Kind == "lemma" && o.Kind == "lemma" {
		return replayCall(l, fn, true, o, outDir)
	}
	if o.Kind == "nopanic" && strings.HasPrefix(o.Name, r.Prefix+"#") {
		rr := replayCall(l, fn, r.Kind == "lemma", o, outDir)
		if rr.Confirmed || r.Kind == "lemma" {
			return rr
		}
	}
	var postNote string
	if o.Kind == "post" && r.Kind == "func" {
		rr := replayPost(l, fn, o, outDir)
		if rr.Confirmed {
			return rr
		}
		postNote = rr.Note
	}
	_ = postNote
	// a failed contract clause of a function: look for a concrete property-level counterexample by
	// running the property's lemma harnesses with callee bodies inlined instead of their contracts
	if !lemmaSearchDone {
		lemmaSearchDone = true
		lemmaSearchHit = lemmaSearch(l, spec, outDir)
	}
	if lemmaSearchHit != nil {
		return *lemmaSearchHit
	}
	note := "no lemma harness of this property exposes the failed clause with a concrete input"
	if postNote != "" {
		note = "direct replay of the clause: " + postNote + "; " + note
	}
	return ReplayResult{Note: note}
}

func writeReplayFile(path, id string, o *Obl, rr ReplayResult) {
	var sb strings.Builder
	fmt.Fprintf(&sb, "property: %s\nobligation: %s\nkind: %s\nunit: %s\nposition: %s\nclause: %s\nsolver status: %s (%s)\n", id, o.Name, o.Kind, o.Unit, o.Pos, o.Src, o.Status, o.Solver)
	if rr.Confirmed {
		sb.WriteString("replay: CONFIRMED on the real code\n")
	} else {
		sb.WriteString("replay: no-failing-input-found (" + rr.Note + ")\n")
	}
	if rr.Note != "" && rr.Confirmed {
		sb.WriteString("note: " + rr.Note + "\n")
	}
	if len(o.Model) > 0 {
		sb.WriteString("\nmodel of the unit inputs:\n")
		var ks []string
		for k := range o.Model {
			ks = append(ks, k)
		}
		sort.Strings(ks)
		for _, k := range ks {
			fmt.Fprintf(&sb, "  %s = %s\n", k, o.Model[k])
		}
	}
	if rr.File != "" {
		sb.WriteString("\n--- replay test (run in the package directory with: go test -tags verif -overlay <overlay> -vet=off -run TestVerifReplay) ---\n")
		sb.WriteString(rr.File)
		sb.WriteString("\n--- replay output ---\n")
		sb.WriteString(rr.Output)
	}
	sb.WriteString("\n--- solver output ---\n")
	sb.WriteString(firstLines(o.Output, 60))
	sb.WriteString("\n")
	os.WriteFile(path, []byte(sb.String()), 0o644)
}

func updateBaselineFile(id string, obls []*Obl) {
	names := map[string][]string{}
	if b, err := os.ReadFile("/verif/baseline/obligations.json"); err == nil {
		json.Unmarshal(b, &names)
	}
	var l []string
	for _, o := range obls {
		if !o.ExpectSat && strings.HasPrefix(o.Status, "discharged") {
			l = append(l, o.Name)
		}
	}
	// union with what the property's file already lists (a quick-tier update must not drop the
	// thorough-tier obligations recorded by an earlier thorough run)
	if b, err := os.ReadFile("/verif/baseline/" + id + ".json"); err == nil {
		var old []string
		if json.Unmarshal(b, &old) == nil {
			have := map[string]bool{}
			for _, n := range l {
				have[n] = true
			}
			for _, n := range old {
				if !have[n] {
					l = append(l, n)
				}
			}
		}
	}
	sort.Strings(l)
	os.MkdirAll("/verif/baseline", 0o755)
	// one file per property (so that concurrent updates of different properties do not collide);
	// an entry for the same property in the older combined file is dropped
	b, _ := json.MarshalIndent(l, "", " ")
	os.WriteFile("/verif/baseline/"+id+".json", b, 0o644)
	if _, old := names[id]; old {
		delete(names, id)
		b, _ := json.MarshalIndent(names, "", " ")
		os.WriteFile("/verif/baseline/obligations.json", b, 0o644)
	}
}

func writeEvidence(id, tier string, seed int, spec *PropSpec, results []*UnitResult, obls []*Obl, wall float64, violations int, notes []string, knownLines []string) {
	level := spec.Level
	if level == "" {
		level = "proof"
	}
	var list []oblEvidence
	omitted := 0
	defer func() { _ = omitted }()
	n, d, nontrivial, bn, bd := 0, 0, 0, 0, 0
	var solverMs int64
	bySolver := map[string]int{}
	var samples []interface{}
	covers := map[string]string{}
	for _, o := range obls {
		if o.ExpectSat {
			covers[o.Name] = o.Status
			continue
		}
		if o.Bounded {
			bn++
			if strings.HasPrefix(o.Status, "discharged") {
				bd++
			}
		} else {
			n++
			if strings.HasPrefix(o.Status, "discharged") {
				d++
			}
		}
		if !o.Trivial {
			nontrivial++
		}
		solverMs += o.Ms
		bySolver[o.Solver]++
		st := o.Status
		if o.Bounded {
			st = "bounded:" + st
		}
		if o.Trivial && o.Kind == "nopanic" && len(obls) > 1500 {
			omitted++ // syntactically discharged safety obligations are only counted when the list is huge
		} else {
			list = append(list, oblEvidence{Name: o.Name, Kind: o.Kind, Unit: o.Unit, Status: st, Solver: o.Solver, Ms: o.Ms, Src: o.Src, Pos: o.Pos})
		}
		if len(samples) < 4 && !o.Trivial && (o.Kind == "post" || o.Kind == "lemma" || o.Kind == "inv") {
			samples = append(samples, map[string]string{"obligation": o.Name, "clause": o.Src, "goal_smt": truncate(o.Goal.String(), 600)})
		}
	}
	if len(samples) == 0 {
		for _, o := range obls {
			if !o.ExpectSat && len(samples) < 3 {
				samples = append(samples, map[string]string{"obligation": o.Name, "clause": o.Src})
			}
		}
	}
	if len(samples) == 0 {
		samples = append(samples, "no obligations generated")
	}
	trusted := map[string]bool{}
	var fns []string
	var unitsInfo []map[string]interface{}
	for _, r := range results {
		ui := map[string]interface{}{"unit": r.Name, "kind": r.Kind}
		if r.Err != "" {
			ui["error"] = r.Err
		}
		if r.Exec != nil {
			for t := range r.Exec.TrustedUsed {
				trusted["trusted "+t] = true
			}
			for t := range r.Exec.Dropped {
				trusted["dropped/abstracted: "+t] = true
			}
			var inl, uc []string
			for f := range r.Exec.Inlined {
				inl = append(inl, f)
			}
			for f := range r.Exec.UnderContr {
				uc = append(uc, f)
			}
			sort.Strings(inl)
			sort.Strings(uc)
			ui["inlined_callees"] = inl
			ui["callees_by_contract"] = uc
			ui["bounded"] = r.Bounded
		}
		if r.Kind == "func" {
			fns = append(fns, r.Name)
		}
		unitsInfo = append(unitsInfo, ui)
	}
	var tb []string
	for t := range trusted {
		tb = append(tb, t)
	}
	tb = append(tb, "go/packages+go/types+go/ssa (x/tools v0.50.0, go1.26.8) translate the source faithfully; govc's VC generator and SMT encoding",
		"z3 4.8.12 / z3 5.1.0 / cvc5 1.0.3 unsat answers",
		"integers are 64/32/16/8-bit vectors exactly as in Go (no mathematical-integer abstraction); slice and string lengths assumed <= 2^48",
		"no dangling pointers: every pointer or slice read from memory is nil or allocated")
	sort.Strings(tb)
	cov := map[string]interface{}{
		"obligations":             n,
		"discharged":              d,
		"checker_cmd":             fmt.Sprintf("/verif/bin/govc check %s --tier %s", id, tier),
		"trusted_base":            tb,
		"evaluations":             n + bn,
		"distinct_nontrivial":     nontrivial,
		"rule":                    "one evaluation = one proof obligation generated from the current /repo sources; non-trivial = not syntactically true after simplification (sent to the SMT portfolio)",
		"samples":                 samples,
		"obligation_list":         list,
		"syntactic_nopanic_obligations_not_listed": omitted,
		"bounded_obligations":     bn,
		"bounded_discharged":      bd,
		"functions_under_contract": fns,
		"units":                   unitsInfo,
		"cover_checks":            covers,
		"solver_ms_total":         solverMs,
		"by_solver":               bySolver,
		"known_findings":          knownLines,
		"notes":                   notes,
		"explanation":             spec.Explanation,
	}
	if level == "proof" && (n == 0 || d != n) {
		// not a complete proof on this run: downgrade the level of this evidence file
		level = "other"
		if spec.Explanation == "" {
			cov["explanation"] = "not all obligations were discharged on this run; see obligation_list"
		}
	}
	if level == "other" && cov["explanation"] == "" {
		cov["explanation"] = "bounded or partial deductive check; see obligation_list and bounded_obligations"
	}
	ev := map[string]interface{}{
		"property_id": id,
		"tier":        tier,
		"seed":        seed,
		"level":       level,
		"coverage":    cov,
		"assumptions": spec.Assumptions,
		"wall_s":      wall,
		"violations":  violations,
	}
	if spec.Assumptions == nil {
		ev["assumptions"] = []string{}
	}
	os.MkdirAll("/verif/evidence", 0o755)
	b, _ := json.MarshalIndent(ev, "", " ")
	os.WriteFile(filepath.Join("/verif/evidence", id+".json"), b, 0o644)
}

func truncate(s string, n int) string {
	if len(s) > n {
		return s[:n] + "..."
	}
	return s
}

var knownCache []KnownFinding
var knownLoaded bool

// knownFor returns the recorded (not fixed) finding for an obligation name, if any.
func knownFor(obl string) *KnownFinding {
	if !knownLoaded {
		knownCache = loadKnown()
		knownLoaded = true
	}
	for i := range knownCache {
		if knownCache[i].Status == "known" && knownCache[i].Obligation == obl {
			return &knownCache[i]
		}
	}
	return nil
}

var lemmaSearchDone bool
var lemmaSearchHit *ReplayResult

// lemmaSearch runs every lemma harness of the property over the real callee bodies (bounded,
// quantifier-free) and replays the first counterexample that lies outside all known-finding regions.
func lemmaSearch(l *Loader, spec *PropSpec, outDir string) *ReplayResult {
	for _, u := range spec.Units {
		p, k := splitUnit(u)
		lf := l.findFunc(p, k)
		if lf == nil {
			continue
		}
		c := l.contractFor(lf)
		if c == nil || !c.Lemma {
			continue
		}
		inlineAll = true
		lr := verifyUnit(l, p, k)
		inlineAll = false
		if lr.Err != "" {
			continue
		}
		var cand []*Obl
		for _, lo := range lr.Obls {
			if lo.ExpectSat || lo.Trivial || !(lo.Kind == "lemma" || lo.Kind == "nopanic") {
				continue
			}
			if kf := knownFor(lo.Name); kf != nil {
				if kf.Region == "" {
					continue
				}
				e, err := ParseSpecExpr(kf.Region)
				if err != nil {
					continue
				}
				var region *Term
				func() {
					defer func() { recover() }()
					env := &SpecEnv{ex: lr.Exec, st: newState(), old: newState(), vars: map[string]Val{}, fn: lr.Fn}
					for _, in := range lo.Inputs {
						env.vars[in.Name] = in.V
					}
					region = env.evalBool(Clause{Expr: e, Src: kf.Region, Line: "known_findings.json"})
				}()
				if region == nil {
					continue
				}
				lo.Assume = append(append([]*Term{}, lo.Assume...), Not(region))
			}
			cand = append(cand, lo)
		}
		discharge(cand, outDir, 10, 6)
		for _, lo := range cand {
			if lo.Status == "failed" {
				rr := replayCall(l, lf, true, lo, outDir)
				if rr.Confirmed {
					rr.Note = "property-level counterexample found by running lemma " + k + " on the real callee bodies"
					return &rr
				}
				if os.Getenv("GOVC_DEBUG") != "" {
					fmt.Fprintf(os.Stderr, "replay of %s not confirmed: %s\n%s\n", lo.Name, rr.Note, rr.Output)
				}
			}
		}
	}
	return nil
}

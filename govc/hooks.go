package main

import (
	"fmt"
	"go/token"
	"go/types"

	"golang.org/x/tools/go/ssa"
)

// callStatic wraps a static call with the call-site hooks of the enclosing unit's contract:
// `assert at call` and `ghost ... at call` before the call, `ghost ... after call` after it.
func (fx *fnExec) callStatic(callee *ssa.Function, args []Val, bindings []Val, st *State, pos token.Pos, rt types.Type) Val {
	if !noopFuncs[callee.String()] {
		fx.callSiteHooks(callee, args, st, pos)
	}
	r := fx.callStatic0(callee, args, bindings, st, pos, rt)
	if fx.c != nil && !st.Reach.IsFalse() {
		fx.callSiteHooksAfter(callee, args, r, st)
	}
	return r
}

func (fx *fnExec) callSiteHooksAfter(callee *ssa.Function, args []Val, res Val, st *State) {
	key := funcKey(callee)
	short := callee.Name()
	match := func(n string) bool { return n == key || n == short || n == shortPkg(callee)+"."+short }
	for _, g := range fx.c.Ghost {
		if !g.After || !match(g.Callee) {
			continue
		}
		env := fx.specEnv(st, fx.entry, nil)
		for j, p := range callee.Params {
			if j < len(args) {
				env.vars["$"+p.Name()] = args[j]
			}
		}
		if res.Tuple != nil {
			for j, rv := range res.Tuple {
				env.vars[fmt.Sprintf("$r%d", j)] = rv
			}
		} else if len(res.C) > 0 {
			env.vars["$r0"] = res
		}
		d := env.eval(g.Delta.Expr)
		dt := toBV64(env.coerce(d, tInt))
		if g.When != nil {
			dt = Ite(env.evalBool(*g.When), dt, BVI(0, 64))
		}
		cur, ok := st.Ghost[g.Name]
		if !ok {
			cur = BVI(0, 64)
		}
		st.Ghost[g.Name] = BVAdd(cur, dt)
	}
}

var _ types.Type

package main

import (
	"fmt"
	"go/token"
	"go/types"

	"golang.org/x/tools/go/ssa"
)

// callStatic wraps a static call with the call-site hooks of the enclosing unit's contract:
// `assert at call` and `ghost ... at call` before the call, `ghost ... after call` after it.
func (fx *fnExec) callStatic(callee *ssa.Function, args []Val, bindings []Val, st *State, pos token.Pos, rt types.Type) Val {
	if !noopFuncs[callee.String()] {
		fx.callSiteHooks(callee, args, st, pos)
	}
	r := fx.callStatic0(callee, args, bindings, st, pos, rt)
	if fx.c != nil && !st.Reach.IsFalse() {
		fx.callSiteHooksAfter(callee, args, r, st)
	}
	return r
}

func (fx *fnExec) callSiteHooksAfter(callee *ssa.Function, args []Val, res Val, st *State) {
	key := funcKey(callee)
	short := callee.Name()
	match := func(n string) bool { return n == key || n == short || n == shortPkg(callee)+"."+short }
	for gi, g := range fx.c.Ghost {
		if !g.After || !match(g.Callee) {
			continue
		}
		noteGhostFired(fx.c, gi)
		env := fx.specEnv(st, fx.entry, nil)
		for j, p := range callee.Params {
			if j < len(args) {
				env.vars["$"+p.Name()] = args[j]
			}
		}
		if res.Tuple != nil {
			for j, rv := range res.Tuple {
				env.vars[fmt.Sprintf("$r%d", j)] = rv
			}
		} else if len(res.C) > 0 {
			env.vars["$r0"] = res
		}
		d := env.eval(g.Delta.Expr)
		dt := toBV64(env.coerce(d, tInt))
		if g.When != nil {
			dt = Ite(env.evalBool(*g.When), dt, BVI(0, 64))
		}
		cur, ok := st.Ghost[g.Name]
		if !ok {
			cur = BVI(0, 64)
		}
		st.Ghost[g.Name] = fx.ghostAdd(st, cur, dt)
	}
}

var _ types.Type

// dynCalleeName names the function value of a dynamic call: the parameter, local variable or
// struct field it is loaded from.
func dynCalleeName(v ssa.Value) string {
	switch x := v.(type) {
	case *ssa.Parameter:
		return x.Name()
	case *ssa.UnOp:
		switch a := x.X.(type) {
		case *ssa.Alloc:
			return a.Comment
		case *ssa.FieldAddr:
			if pt, ok := a.X.Type().Underlying().(*types.Pointer); ok {
				if st, ok := pt.Elem().Underlying().(*types.Struct); ok {
					return st.Field(a.Field).Name()
				}
			}
		case *ssa.FreeVar:
			return a.Name()
		}
	case *ssa.FreeVar:
		return x.Name()
	}
	return v.Name()
}

// dynCallHooks evaluates `assert at call <name>` clauses for calls through function values;
// the arguments are available as $0, $1, ...
func (fx *fnExec) dynCallHooks(name string, args []Val, st *State, pos token.Pos) {
	if fx.c == nil {
		return
	}
	for i, a := range fx.c.Asserts {
		if a.Callee != name {
			continue
		}
		fx.callCount[fmt.Sprintf("assert:%d:%s", i, a.Callee)]++
		noteAssertFired(fx.c, i)
		if a.Nth != 0 && a.Nth != fx.callCount[fmt.Sprintf("assert:%d:%s", i, a.Callee)] {
			continue
		}
		env := fx.specEnv(st, fx.entry, nil)
		for j := range args {
			env.vars[fmt.Sprintf("$%d", j)] = args[j]
		}
		t := env.evalBool(a.Cond)
		fx.oblige(fmt.Sprintf("assertcall.%s.%d#%d", a.Callee, i+1, fx.callCount[fmt.Sprintf("assert:%d:%s", i, a.Callee)]), "assertcall", st, t, pos, a.Cond.Src)
	}
	// ghost counters updated at a call through a function value (after the assertions, which see the
	// counters as they were before this call)
	for gi, g := range fx.c.Ghost {
		if g.Callee != name {
			continue
		}
		noteGhostFired(fx.c, gi)
		if g.After {
			fail("%s: `ghost ... after call %s`: %s is called through a function value; use `at call`", fx.fn, name, name)
		}
		env := fx.specEnv(st, fx.entry, nil)
		for j := range args {
			env.vars[fmt.Sprintf("$%d", j)] = args[j]
		}
		d := env.eval(g.Delta.Expr)
		dt := toBV64(env.coerce(d, tInt))
		if g.When != nil {
			dt = Ite(env.evalBool(*g.When), dt, BVI(0, 64))
		}
		cur, ok := st.Ghost[g.Name]
		if !ok {
			cur = BVI(0, 64)
		}
		st.Ghost[g.Name] = fx.ghostAdd(st, cur, dt)
	}
}

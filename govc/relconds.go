package main

// relativeConds removes from every condition the conjuncts shared by all of them.
func relativeConds(conds []*Term) []*Term {
	if len(conds) < 2 {
		return conds
	}
	conj := func(t *Term) []*Term {
		if t.Op == "and" {
			return t.Args
		}
		return []*Term{t}
	}
	common := map[int]bool{}
	for _, c := range conj(conds[0]) {
		common[c.id] = true
	}
	for _, t := range conds[1:] {
		here := map[int]bool{}
		for _, c := range conj(t) {
			here[c.id] = true
		}
		for id := range common {
			if !here[id] {
				delete(common, id)
			}
		}
	}
	if len(common) == 0 {
		return conds
	}
	out := make([]*Term, len(conds))
	for i, t := range conds {
		var rest []*Term
		for _, c := range conj(t) {
			if !common[c.id] {
				rest = append(rest, c)
			}
		}
		out[i] = And(rest...)
	}
	return out
}

// factoredReach is Or(conds) with the shared conjuncts factored out: And(shared..., Or(rest...)).
// Equivalent to Or(conds); the factored form lets a later merge strip the shared part again.
func factoredReach(conds []*Term) *Term {
	if len(conds) < 2 {
		return Or(conds...)
	}
	rel := relativeConds(conds)
	conj := func(t *Term) []*Term {
		if t.Op == "and" {
			return t.Args
		}
		return []*Term{t}
	}
	inRel := map[int]bool{}
	for _, c := range conj(rel[0]) {
		inRel[c.id] = true
	}
	var shared []*Term
	for _, c := range conj(conds[0]) {
		if !inRel[c.id] {
			shared = append(shared, c)
		}
	}
	if len(shared) == 0 {
		return Or(conds...)
	}
	return And(append(shared, Or(rel...))...)
}

package main

// Contract files: scanning of //@ blocks and a Pratt parser for spec expressions.

import (
	"fmt"
	"go/ast"
	"go/parser"
	"go/token"
	"math/big"
	"strconv"
	"strings"
)

type SExpr struct {
	Kind  string // lit str ident unary binary call index slice select forall exists
	Op    string
	Name  string
	Lit   *big.Int
	Str   string
	Args  []*SExpr // slice: [x, lo|nil, hi|nil]
	Bound []BoundVar
	Src   string
}

type BoundVar struct {
	Name string
	Type string
}

type Clause struct {
	Expr *SExpr
	Src  string
	Line string // file:line
}

type LoopSpec struct {
	Assumed []Clause // `loop k assume e`: assumed at the head, not checked
	Step     []Clause
	Inv      []Clause
	Unroll   int
	Modifies []Clause
}

type Contract struct {
	Key      string // "AppendVarint", "(*inflow).add", "(T).m", "f$1"
	Params   []string
	Results  []string
	Requires []Clause
	Ensures  []Clause
	Modifies []Clause
	Loops    map[int]*LoopSpec
	Asserts  []CallAssert
	Inline   bool
	Opaque   bool
	Trusted  bool
	Timeout int // `timeout N`: solver budget in seconds for the obligations of this unit (default: the tier's)
	Recursive bool // `recursive` (with pure): uninterpreted function with its defining equation unfolded once per use
	Function bool // `function`: results are a deterministic (uninterpreted) function of the arguments
	Abstract bool
	NoFrame  bool
	Lemma    bool
	Pure     bool
	Bounded  int // >0: bounded unit (unroll depth), never counted as proof
	FuncName string
	Pos      string
	Ghost    []GhostUpd
	Allocates bool
	HavocCalls       bool     // `havoccalls [except T.f, ...]` on a unit: calls of callees without contract that cannot be inlined are abstracted by whole-heap havoc
	HavocCallsExcept []Clause
	AbstractCalls    []string // `abstractcall f, g`: in a havoccalls unit these callees are abstracted even though they have contracts
	HavocExceptKeys  map[string]bool // precomputed kept keys (synthetic contracts of `havoccalls`)
	HavocAll    bool     // `havocs [except T.f, ...]`: the callee may change every heap location except the named type-level fields
	HavocExcept []Clause
	Partial     []string // `partial nopanic pre ...`: obligation kinds assumed, not checked, in this unit
	Each      []string // lemma parameters ranging over all declared constants of their type
	UseBody   []string // callees whose bodies are executed in this unit instead of their contracts
	TrustCalls []string // function-valued parameters/fields whose calls are assumed not to touch the state under contract
	AbstractRem bool   // the % operator is uninterpreted in this unit (reasoned about through `uses` lemmas)
	Partitions [][]Clause // proof hint: postconditions are proved separately in every cell of each partition (conditions over the entry state)
	Preserves []Clause // locations inside the modifies set that are nevertheless unchanged
	Uses      []string // lemmas whose (spec-level) statements are assumed, quantified over their parameters
	Hide      []string // package-level variables whose contents are hidden in this unit (known only through `uses` lemmas)
}

type CallAssert struct {
	Callee string
	Nth    int // 0 = every call
	Cond   Clause
}

type GhostUpd struct {
	Name   string
	Callee string
	Delta  Clause
	When   *Clause
	After  bool // evaluated after the call; $r0, $r1, ... denote its results
}

// ---------------- tokenizer ----------------

type tok struct {
	k string // ident num str op eof
	s string
	n *big.Int
}

var ops = []string{"<==>", "==>", "&&", "||", "==", "!=", "<=", ">=", "<<", ">>", "&^", "::", "..",
	"+", "-", "*", "/", "%", "&", "|", "^", "<", ">", "!", "(", ")", "[", "]", ",", ".", ":", "{", "}"}

func tokenize(src string) ([]tok, error) {
	var out []tok
	i := 0
	for i < len(src) {
		c := src[i]
		switch {
		case c == ' ' || c == '\t' || c == '\n':
			i++
		case c == '/' && i+1 < len(src) && src[i+1] == '/':
			i = len(src)
		case c >= '0' && c <= '9':
			j := i
			for j < len(src) && (isAlnum(src[j]) || src[j] == '_') {
				j++
			}
			txt := strings.ReplaceAll(src[i:j], "_", "")
			n := new(big.Int)
			if _, ok := n.SetString(txt, 0); !ok {
				return nil, fmt.Errorf("bad number %q", src[i:j])
			}
			out = append(out, tok{k: "num", s: src[i:j], n: n})
			i = j
		case isAlpha(c) || c == '$':
			j := i + 1
			for j < len(src) && (isAlnum(src[j]) || src[j] == '_' || src[j] == '$') {
				j++
			}
			out = append(out, tok{k: "ident", s: src[i:j]})
			i = j
		case c == '\'':
			j := i + 1
			for j < len(src) && src[j] != '\'' {
				if src[j] == '\\' {
					j++
				}
				j++
			}
			if j >= len(src) {
				return nil, fmt.Errorf("unterminated char literal")
			}
			r, _, _, err := strconv.UnquoteChar(src[i+1:j], '\'')
			if err != nil {
				return nil, err
			}
			out = append(out, tok{k: "num", s: src[i : j+1], n: big.NewInt(int64(r))})
			i = j + 1
		case c == '"':
			j := i + 1
			for j < len(src) && src[j] != '"' {
				if src[j] == '\\' {
					j++
				}
				j++
			}
			if j >= len(src) {
				return nil, fmt.Errorf("unterminated string literal")
			}
			s, err := strconv.Unquote(src[i : j+1])
			if err != nil {
				return nil, err
			}
			out = append(out, tok{k: "str", s: s})
			i = j + 1
		default:
			matched := false
			for _, op := range ops {
				if strings.HasPrefix(src[i:], op) {
					out = append(out, tok{k: "op", s: op})
					i += len(op)
					matched = true
					break
				}
			}
			if !matched {
				return nil, fmt.Errorf("unexpected character %q", c)
			}
		}
	}
	out = append(out, tok{k: "eof"})
	return out, nil
}

func isAlpha(c byte) bool { return c == '_' || (c >= 'a' && c <= 'z') || (c >= 'A' && c <= 'Z') }
func isAlnum(c byte) bool { return isAlpha(c) || (c >= '0' && c <= '9') }

// ---------------- parser ----------------

type sparser struct {
	toks []tok
	p    int
}

func (p *sparser) peek() tok { return p.toks[p.p] }
func (p *sparser) next() tok { t := p.toks[p.p]; p.p++; return t }
func (p *sparser) isOp(s string) bool {
	t := p.peek()
	return t.k == "op" && t.s == s
}
func (p *sparser) expect(s string) error {
	if !p.isOp(s) {
		return fmt.Errorf("expected %q, got %q", s, p.peek().s)
	}
	p.p++
	return nil
}

var binPrec = map[string]int{
	"<==>": 1, "==>": 2, "||": 3, "&&": 4,
	"==": 5, "!=": 5, "<": 5, "<=": 5, ">": 5, ">=": 5,
	"+": 6, "-": 6, "|": 6, "^": 6,
	"*": 7, "/": 7, "%": 7, "<<": 7, ">>": 7, "&": 7, "&^": 7,
}

func ParseSpecExpr(src string) (*SExpr, error) {
	toks, err := tokenize(src)
	if err != nil {
		return nil, err
	}
	p := &sparser{toks: toks}
	e, err := p.expr(0)
	if err != nil {
		return nil, err
	}
	if p.peek().k != "eof" {
		return nil, fmt.Errorf("trailing input at %q", p.peek().s)
	}
	e.Src = src
	return e, nil
}

func (p *sparser) expr(minPrec int) (*SExpr, error) {
	t := p.peek()
	if t.k == "ident" && (t.s == "forall" || t.s == "exists") {
		p.next()
		var bs []BoundVar
		for {
			n := p.next()
			if n.k != "ident" {
				return nil, fmt.Errorf("quantifier: expected variable name")
			}
			ty := p.next()
			if ty.k != "ident" {
				return nil, fmt.Errorf("quantifier: expected type name")
			}
			bs = append(bs, BoundVar{n.s, ty.s})
			if p.isOp(",") {
				p.next()
				continue
			}
			break
		}
		if err := p.expect("::"); err != nil {
			return nil, err
		}
		body, err := p.expr(0)
		if err != nil {
			return nil, err
		}
		return &SExpr{Kind: t.s, Bound: bs, Args: []*SExpr{body}}, nil
	}
	lhs, err := p.unary()
	if err != nil {
		return nil, err
	}
	for {
		t := p.peek()
		if t.k != "op" {
			break
		}
		prec, ok := binPrec[t.s]
		if !ok || prec < minPrec {
			break
		}
		p.next()
		nextMin := prec + 1
		if t.s == "==>" {
			nextMin = prec // right assoc
		}
		rhs, err := p.expr(nextMin)
		if err != nil {
			return nil, err
		}
		lhs = &SExpr{Kind: "binary", Op: t.s, Args: []*SExpr{lhs, rhs}}
	}
	return lhs, nil
}

func (p *sparser) unary() (*SExpr, error) {
	t := p.peek()
	if t.k == "op" && (t.s == "!" || t.s == "-" || t.s == "^" || t.s == "+" || t.s == "*" || t.s == "&") {
		p.next()
		x, err := p.unary()
		if err != nil {
			return nil, err
		}
		return &SExpr{Kind: "unary", Op: t.s, Args: []*SExpr{x}}, nil
	}
	return p.postfix()
}

func (p *sparser) postfix() (*SExpr, error) {
	var e *SExpr
	t := p.next()
	switch t.k {
	case "num":
		e = &SExpr{Kind: "lit", Lit: t.n}
	case "str":
		e = &SExpr{Kind: "str", Str: t.s}
	case "ident":
		e = &SExpr{Kind: "ident", Name: t.s}
	case "op":
		if t.s == "(" {
			// (*T)(x) conversion or parenthesised expression
			x, err := p.expr(0)
			if err != nil {
				return nil, err
			}
			if err := p.expect(")"); err != nil {
				return nil, err
			}
			e = x
		} else if t.s == "[" {
			// []byte(x) style conversion type
			if err := p.expect("]"); err != nil {
				return nil, err
			}
			n := p.next()
			if n.k != "ident" {
				return nil, fmt.Errorf("expected element type after []")
			}
			e = &SExpr{Kind: "ident", Name: "[]" + n.s}
		} else {
			return nil, fmt.Errorf("unexpected %q", t.s)
		}
	default:
		return nil, fmt.Errorf("unexpected end of expression")
	}
	for {
		switch {
		case p.isOp("("):
			p.next()
			var args []*SExpr
			for !p.isOp(")") {
				a, err := p.expr(0)
				if err != nil {
					return nil, err
				}
				args = append(args, a)
				if p.isOp(",") {
					p.next()
				}
			}
			p.next()
			e = &SExpr{Kind: "call", Args: append([]*SExpr{e}, args...)}
		case p.isOp("["):
			p.next()
			var lo, hi *SExpr
			var err error
			if !p.isOp(":") {
				lo, err = p.expr(0)
				if err != nil {
					return nil, err
				}
			}
			if p.isOp(":") {
				p.next()
				if !p.isOp("]") {
					hi, err = p.expr(0)
					if err != nil {
						return nil, err
					}
				}
				if err := p.expect("]"); err != nil {
					return nil, err
				}
				e = &SExpr{Kind: "slice", Args: []*SExpr{e, lo, hi}}
			} else {
				if err := p.expect("]"); err != nil {
					return nil, err
				}
				e = &SExpr{Kind: "index", Args: []*SExpr{e, lo}}
			}
		case p.isOp("."):
			p.next()
			if p.isOp("(") { // type test x.(T)
				p.next()
				star := false
				if p.isOp("*") {
					p.next()
					star = true
				}
				n := p.next()
				name := n.s
				if p.isOp(".") {
					p.next()
					name += "." + p.next().s
				}
				if star {
					name = "*" + name
				}
				if err := p.expect(")"); err != nil {
					return nil, err
				}
				e = &SExpr{Kind: "typeassert", Name: name, Args: []*SExpr{e}}
				continue
			}
			n := p.next()
			if n.k != "ident" {
				return nil, fmt.Errorf("expected field name after '.'")
			}
			e = &SExpr{Kind: "select", Name: n.s, Args: []*SExpr{e}}
		default:
			return e, nil
		}
	}
}

// ---------------- contract file scanning ----------------

type ContractSet struct {
	ByKey map[string]*Contract // function key -> contract
	Funcs map[string]*Contract // Go func name (lemma/pure) -> contract
	// LenientDup: a second contract for the same key is parsed and dropped (first wins); used for the
	// trusted standard-library contract files, which several property authors extend independently
	LenientDup bool
}

func stripSpecPrefix(line string) (string, bool) {
	l := strings.TrimSpace(line)
	if strings.HasPrefix(l, "//@") {
		return strings.TrimPrefix(l, "//@"), true
	}
	if strings.HasPrefix(l, "// @") {
		return strings.TrimPrefix(l, "// @"), true
	}
	return "", false
}

var clauseKeywords = map[string]bool{"requires": true, "ensures": true, "modifies": true, "loop": true, "inline": true,
	"opaque": true, "trusted": true, "abstract": true, "func": true, "lemma": true, "pure": true, "assert": true,
	"bounded": true, "ghost": true, "noframe": true, "allocates": true, "each": true, "usebody": true, "uses": true, "hide": true, "preserves": true, "cases": true, "abstractrem": true, "trustcall": true, "havocs": true, "partial": true, "function": true, "havoccalls": true, "abstractcall": true, "recursive": true, "override": true, "extend": true, "untrusted": true, "timeout": true}

// ParseContracts scans a Go source file for //@ blocks.
func ParseContracts(fset *token.FileSet, filename string, src []byte, cs *ContractSet) error {
	f, err := parser.ParseFile(fset, filename, src, parser.ParseComments)
	if err != nil {
		return err
	}
	docOf := map[*ast.CommentGroup]*ast.FuncDecl{}
	for _, d := range f.Decls {
		if fd, ok := d.(*ast.FuncDecl); ok && fd.Doc != nil {
			docOf[fd.Doc] = fd
		}
	}
	for _, cg := range f.Comments {
		var lines []string
		var lineNos []int
		for _, c := range cg.List {
			if s, ok := stripSpecPrefix(c.Text); ok {
				lines = append(lines, s)
				lineNos = append(lineNos, fset.Position(c.Pos()).Line)
			}
		}
		if len(lines) == 0 {
			continue
		}
		// join continuation lines into clauses
		type rawClause struct {
			text string
			line int
		}
		var clauses []rawClause
		for i, l := range lines {
			t := strings.TrimSpace(l)
			if idx := strings.Index(t, " //"); idx >= 0 {
				t = strings.TrimSpace(t[:idx])
			}
			if t == "" {
				continue
			}
			first := strings.Fields(t)[0]
			if clauseKeywords[first] || len(clauses) == 0 {
				clauses = append(clauses, rawClause{t, lineNos[i]})
			} else {
				clauses[len(clauses)-1].text += " " + t
			}
		}
		var cur *Contract
		fd := docOf[cg]
		if fd != nil {
			cur = &Contract{FuncName: fd.Name.Name, Key: fd.Name.Name, Loops: map[int]*LoopSpec{}, Pos: fmt.Sprintf("%s:%d", filename, lineNos[0])}
			for _, fl := range fd.Type.Params.List {
				for _, n := range fl.Names {
					cur.Params = append(cur.Params, n.Name)
				}
			}
			if fd.Type.Results != nil {
				for _, fl := range fd.Type.Results.List {
					for _, n := range fl.Names {
						cur.Results = append(cur.Results, n.Name)
					}
				}
			}
			if fd.Recv != nil {
				// methods as lemma/pure: receiver first
				var rn []string
				for _, fl := range fd.Recv.List {
					for _, n := range fl.Names {
						rn = append(rn, n.Name)
					}
				}
				cur.Params = append(rn, cur.Params...)
			}
			cs.Funcs[fd.Name.Name] = cur
		}
		for _, rc := range clauses {
			fields := strings.Fields(rc.text)
			kw := fields[0]
			rest := strings.TrimSpace(strings.TrimPrefix(rc.text, kw))
			where := fmt.Sprintf("%s:%d", filename, rc.line)
			mkClause := func(src string) (Clause, error) {
				e, err := ParseSpecExpr(src)
				if err != nil {
					return Clause{}, fmt.Errorf("%s: %v in %q", where, err, src)
				}
				return Clause{Expr: e, Src: src, Line: where}, nil
			}
			if kw == "override" || kw == "extend" {
				// override Key(params) (results): replaces a contract for Key declared in an earlier file
				// of the package; extend Key(...): the following clauses are appended to that contract
				c, err := parseFuncHeader(rest)
				if err != nil {
					return fmt.Errorf("%s: %v", where, err)
				}
				prev, have := cs.ByKey[c.Key]
				if kw == "extend" {
					if !have {
						return fmt.Errorf("%s: extend: no earlier contract for %s", where, c.Key)
					}
					if len(c.Params) > 0 {
						prev.Params = c.Params
					}
					if len(c.Results) > 0 {
						prev.Results = c.Results
					}
					cur = prev
					continue
				}
				c.Pos = where
				cs.ByKey[c.Key] = c
				cur = c
				continue
			}
			if kw == "func" {
				c, err := parseFuncHeader(rest)
				if err != nil {
					return fmt.Errorf("%s: %v", where, err)
				}
				c.Pos = where
				if _, dup := cs.ByKey[c.Key]; dup {
					if !cs.LenientDup {
						return fmt.Errorf("%s: duplicate contract for %s", where, c.Key)
					}
				} else {
					cs.ByKey[c.Key] = c
				}
				cur = c
				continue
			}
			if cur == nil {
				return fmt.Errorf("%s: clause %q outside a contract", where, kw)
			}
			switch kw {
			case "lemma":
				cur.Lemma = true
			case "pure":
				cur.Pure = true
			case "inline":
				cur.Inline = true
			case "opaque":
				cur.Opaque = true
			case "trusted":
				cur.Trusted = true
			case "untrusted":
				cur.Trusted = false
			case "timeout":
				n, err := strconv.Atoi(rest)
				if err != nil {
					return fmt.Errorf("%s: timeout needs a number of seconds", where)
				}
				cur.Timeout = n
			case "function":
				cur.Function = true
			case "recursive":
				cur.Recursive = true
			case "abstract":
				cur.Abstract = true
			case "noframe":
				cur.NoFrame = true
			case "each":
				cur.Each = append(cur.Each, strings.Fields(strings.ReplaceAll(rest, ",", " "))...)
			case "trustcall":
				cur.TrustCalls = append(cur.TrustCalls, strings.Fields(strings.ReplaceAll(rest, ",", " "))...)
			case "abstractrem":
				cur.AbstractRem = true
			case "cases":
				// cases e                      -> two cells: e, !e
				// cases e1 else e2 else e3     -> four cells: e1; !e1&&e2; !e1&&!e2&&e3; none of them
				var chain []Clause
				for _, part := range strings.Split(rest, " else ") {
					c, err := mkClause(strings.TrimSpace(part))
					if err != nil {
						return err
					}
					chain = append(chain, c)
				}
				cur.Partitions = append(cur.Partitions, chain)
			case "preserves":
				for _, part := range splitTopLevel(rest) {
					c, err := mkClause(part)
					if err != nil {
						return err
					}
					cur.Preserves = append(cur.Preserves, c)
				}
			case "uses":
				cur.Uses = append(cur.Uses, strings.Fields(strings.ReplaceAll(rest, ",", " "))...)
			case "hide":
				cur.Hide = append(cur.Hide, strings.Fields(strings.ReplaceAll(rest, ",", " "))...)
			case "usebody":
				cur.UseBody = append(cur.UseBody, strings.Fields(strings.ReplaceAll(rest, ",", " "))...)
			case "allocates":
				cur.Allocates = true
			case "partial":
				cur.Partial = append(cur.Partial, strings.Fields(strings.ReplaceAll(rest, ",", " "))...)
			case "abstractcall":
				cur.AbstractCalls = append(cur.AbstractCalls, strings.Fields(strings.ReplaceAll(rest, ",", " "))...)
			case "havoccalls":
				cur.HavocCalls = true
				rest = strings.TrimSpace(strings.TrimPrefix(strings.TrimSpace(rest), "except"))
				if rest != "" {
					for _, part := range splitTopLevel(rest) {
						c, err := mkClause(part)
						if err != nil {
							return err
						}
						cur.HavocCallsExcept = append(cur.HavocCallsExcept, c)
					}
				}
			case "havocs":
				cur.HavocAll = true
				rest = strings.TrimSpace(strings.TrimPrefix(strings.TrimSpace(rest), "except"))
				if rest != "" {
					for _, part := range splitTopLevel(rest) {
						c, err := mkClause(part)
						if err != nil {
							return err
						}
						cur.HavocExcept = append(cur.HavocExcept, c)
					}
				}
			case "bounded":
				n, err := strconv.Atoi(rest)
				if err != nil {
					return fmt.Errorf("%s: bounded needs a number", where)
				}
				cur.Bounded = n
			case "requires", "ensures", "modifies":
				if kw == "modifies" {
					for _, part := range splitTopLevel(rest) {
						c, err := mkClause(part)
						if err != nil {
							return err
						}
						cur.Modifies = append(cur.Modifies, c)
					}
					continue
				}
				c, err := mkClause(rest)
				if err != nil {
					return err
				}
				if kw == "requires" {
					cur.Requires = append(cur.Requires, c)
				} else {
					cur.Ensures = append(cur.Ensures, c)
				}
			case "loop":
				if len(fields) < 3 {
					return fmt.Errorf("%s: malformed loop clause", where)
				}
				k, err := strconv.Atoi(fields[1])
				if err != nil {
					return fmt.Errorf("%s: loop ordinal: %v", where, err)
				}
				ls := cur.Loops[k]
				if ls == nil {
					ls = &LoopSpec{}
					cur.Loops[k] = ls
				}
				body := strings.TrimSpace(strings.SplitN(rest, fields[2], 2)[1])
				switch fields[2] {
				case "invariant":
					c, err := mkClause(body)
					if err != nil {
						return err
					}
					ls.Inv = append(ls.Inv, c)
				case "assume":
					// loop k assume <expr>: a fact assumed at the loop head and NOT checked (listed as an
					// assumption of the unit): for invariants that depend on parts of the code outside the
					// contract's reach
					c, err := mkClause(body)
					if err != nil {
						return err
					}
					ls.Assumed = append(ls.Assumed, c)
				case "step":
					// loop k step <expr>: holds at the end of every iteration; atiter(e) is e with
					// memory as it was at the start of that iteration
					c, err := mkClause(body)
					if err != nil {
						return err
					}
					ls.Step = append(ls.Step, c)
				case "unroll":
					n, err := strconv.Atoi(body)
					if err != nil {
						return fmt.Errorf("%s: unroll count: %v", where, err)
					}
					ls.Unroll = n
				case "modifies":
					for _, part := range splitTopLevel(body) {
						c, err := mkClause(part)
						if err != nil {
							return err
						}
						ls.Modifies = append(ls.Modifies, c)
					}
				default:
					return fmt.Errorf("%s: unknown loop clause %q", where, fields[2])
				}
			case "assert":
				// assert at call <callee>[#k]: cond
				if len(fields) < 5 || fields[1] != "at" || fields[2] != "call" {
					return fmt.Errorf("%s: malformed assert clause", where)
				}
				idx := strings.Index(rest, ":")
				if idx < 0 {
					return fmt.Errorf("%s: assert clause needs ':'", where)
				}
				head := strings.Fields(rest[:idx])
				callee := head[len(head)-1]
				nth := 0
				if h := strings.Index(callee, "#"); h >= 0 {
					nth, _ = strconv.Atoi(callee[h+1:])
					callee = callee[:h]
				}
				c, err := mkClause(strings.TrimSpace(rest[idx+1:]))
				if err != nil {
					return err
				}
				cur.Asserts = append(cur.Asserts, CallAssert{Callee: callee, Nth: nth, Cond: c})
			case "ghost":
				// ghost name += expr at call callee [when cond]
				// e.g. ghost refund += n at call sendWindowUpdate when st == nil
				m := strings.SplitN(rest, "+=", 2)
				if len(m) != 2 {
					return fmt.Errorf("%s: malformed ghost clause", where)
				}
				name := strings.TrimSpace(m[0])
				r := m[1]
				at := strings.Index(r, " at call ")
				after := false
				sepLen := len(" at call ")
				if at < 0 {
					at = strings.Index(r, " after call ")
					after = true
					sepLen = len(" after call ")
				}
				if at < 0 {
					// ghost name += expr at loop K: advanced each time loop K is entered from outside
					if lat := strings.Index(r, " at loop "); lat >= 0 {
						delta, err := mkClause(strings.TrimSpace(r[:lat]))
						if err != nil {
							return err
						}
						k, err := strconv.Atoi(strings.TrimSpace(r[lat+len(" at loop "):]))
						if err != nil || k <= 0 {
							return fmt.Errorf("%s: ghost ... at loop K: bad loop ordinal", where)
						}
						cur.Ghost = append(cur.Ghost, GhostUpd{Name: name, Callee: fmt.Sprintf("loop:%d", k), Delta: delta})
						continue
					}
					return fmt.Errorf("%s: ghost clause needs 'at call', 'after call' or 'at loop'", where)
				}
				delta, err := mkClause(strings.TrimSpace(r[:at]))
				if err != nil {
					return err
				}
				tail := strings.TrimSpace(r[at+sepLen:])
				var when *Clause
				callee := tail
				if w := strings.Index(tail, " when "); w >= 0 {
					callee = strings.TrimSpace(tail[:w])
					c, err := mkClause(strings.TrimSpace(tail[w+len(" when "):]))
					if err != nil {
						return err
					}
					when = &c
				}
				cur.Ghost = append(cur.Ghost, GhostUpd{Name: name, Callee: callee, Delta: delta, When: when, After: after})
			default:
				return fmt.Errorf("%s: unknown clause keyword %q", where, kw)
			}
		}
	}
	return nil
}

func splitTopLevel(s string) []string {
	var out []string
	depth := 0
	start := 0
	for i, c := range s {
		switch c {
		case '(', '[':
			depth++
		case ')', ']':
			depth--
		case ',':
			if depth == 0 {
				out = append(out, strings.TrimSpace(s[start:i]))
				start = i + 1
			}
		}
	}
	if t := strings.TrimSpace(s[start:]); t != "" {
		out = append(out, t)
	}
	return out
}

// parseFuncHeader parses "AppendVarint(b, v) (out)" or "(*inflow).add(f, n) (connAdd)".
func parseFuncHeader(s string) (*Contract, error) {
	s = strings.TrimSpace(s)
	c := &Contract{Loops: map[int]*LoopSpec{}}
	// key up to the parameter list: find the '(' that starts params: the last '(' group count
	// Strategy: if s starts with '(' it is a method: key = "(recv).name"
	i := 0
	if strings.HasPrefix(s, "(") {
		j := strings.Index(s, ")")
		if j < 0 {
			return nil, fmt.Errorf("bad method header %q", s)
		}
		i = j + 1
	}
	p := strings.Index(s[i:], "(")
	if p < 0 {
		c.Key = strings.TrimSpace(s)
		return c, nil
	}
	c.Key = strings.TrimSpace(s[:i+p])
	rest := s[i+p:]
	q := strings.Index(rest, ")")
	if q < 0 {
		return nil, fmt.Errorf("bad parameter list in %q", s)
	}
	for _, n := range strings.Split(rest[1:q], ",") {
		if n = strings.TrimSpace(n); n != "" {
			c.Params = append(c.Params, n)
		}
	}
	rest = strings.TrimSpace(rest[q+1:])
	if strings.HasPrefix(rest, "(") {
		q := strings.Index(rest, ")")
		if q < 0 {
			return nil, fmt.Errorf("bad result list in %q", s)
		}
		for _, n := range strings.Split(rest[1:q], ",") {
			if n = strings.TrimSpace(n); n != "" {
				c.Results = append(c.Results, n)
			}
		}
	}
	return c, nil
}

package main

// First-class pointers to struct elements of slices and arrays ("handles"), and pointer values that
// are a conditional choice between several locations.
//
// &s[i] for a slice of structs is represented, when it has to become a first-class value (returned,
// merged at a join, stored), as the term $elemptr:T(row, idx): an injective function of the backing
// array reference and the absolute element index, tagged so that it differs from every allocated
// object and every embedded location. Dereferencing recognises the term syntactically; a pointer
// term of the form ite(c, p, q) is dereferenced by cases.

import (
	"fmt"
	"go/types"
)

const (
	PMulti PtrKind = iota + 200
	PNil
)

type multiPtr struct {
	cond *Term
	a, b *MetaPtr
}

var handleElem = map[string]types.Type{}

func (ex *Exec) elemHandle(mp *MetaPtr) *Term {
	tn := typeName(mp.Root)
	handleElem[tn] = mp.Root
	u := DeclUF("$elemptr:"+tn, IntSort, IntSort, BV64)
	h := App(u, mp.Ref, mp.Idx)
	if !ex.embSeen[h] {
		ex.embSeen[h] = true
		row := DeclUF("$elemrow:"+tn, IntSort, IntSort)
		idx := DeclUF("$elemidx:"+tn, BV64, IntSort)
		tag := IntC(int64(ex.tagOf("elemptr:" + tn)))
		ex.Assume = append(ex.Assume, And(Eq(App(row, h), mp.Ref), Eq(App(idx, h), mp.Idx), Eq(App(ptagUF, h), tag), IntLt(IntC(0), h)))
	}
	return h
}

// handlePtr recognises handle terms, nil and conditional pointer terms.
func (ex *Exec) handlePtr(elem types.Type, ref *Term) *MetaPtr {
	switch {
	case ref.Op == "app" && len(ref.Args) == 2 && ref.Name == sanitize("$elemptr:"+typeName(elem)):
		return &MetaPtr{Kind: PElem, Ref: ref.Args[0], Idx: ref.Args[1], Root: elem}
	case ref.Op == "ite" && containsHandle(ref):
		handleCtx++
		a := ex.objPtr(elem, ref.Args[1])
		b := ex.objPtr(elem, ref.Args[2])
		handleCtx--
		return &MetaPtr{Kind: PMulti, Root: elem, Multi: &multiPtr{cond: ref.Args[0], a: a, b: b}}
	case ref.IsConst() && ref.Sort == IntSort && ref.Val.Sign() == 0 && handleCtx > 0:
		return &MetaPtr{Kind: PNil, Root: elem}
	}
	return nil
}

// handleCtx > 0 while the branches of a conditional pointer are being resolved (a literal nil
// branch is then a legal, never dereferenced alternative).
var handleCtx int

func containsHandle(t *Term) bool {
	if t.Op == "app" && len(t.Name) > 9 && t.Name[:9] == "$elemptr_" {
		return true
	}
	if t.Op == "ite" {
		return containsHandle(t.Args[1]) || containsHandle(t.Args[2])
	}
	return false
}

func (mp *MetaPtr) multi() *multiPtr {
	if mp.Multi == nil {
		fail("conditional pointer lost its alternatives")
	}
	return mp.Multi
}

func withPath(mp *MetaPtr, path []Step) *MetaPtr {
	n := *mp
	n.Path = append(append([]Step{}, mp.Path...), path...)
	return &n
}

func (fx *fnExec) loadMulti(st *State, mp *MetaPtr) Val {
	m := mp.multi()
	handleCtx++
	defer func() { handleCtx-- }()
	va := fx.load(st, withPath(m.a, mp.Path))
	vb := fx.load(st, withPath(m.b, mp.Path))
	if len(va.C) != len(vb.C) {
		fail("conditional pointer: alternatives of different shape")
	}
	nc := make([]*Term, len(va.C))
	for k := range va.C {
		nc[k] = Ite(m.cond, va.C[k], vb.C[k])
	}
	return Val{T: va.T, C: nc}
}

func (fx *fnExec) storeMulti(st *State, mp *MetaPtr, v Val) {
	m := mp.multi()
	pa, pb := withPath(m.a, mp.Path), withPath(m.b, mp.Path)
	oa, ob := fx.load(st, pa), fx.load(st, pb)
	na := make([]*Term, len(v.C))
	nb := make([]*Term, len(v.C))
	for k := range v.C {
		na[k] = Ite(m.cond, v.C[k], oa.C[k])
		nb[k] = Ite(m.cond, ob.C[k], v.C[k])
	}
	fx.store(st, pa, Val{T: v.T, C: na})
	fx.store(st, pb, Val{T: v.T, C: nb})
}

var _ = fmt.Sprintf

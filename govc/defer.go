package main

import (
	"golang.org/x/tools/go/ssa"
)

// Deferred calls: supported when the callee is statically known (a function, a method or a function
// literal made at the defer statement) and the defer statement is not inside a loop. The call's
// arguments and the literal's bindings are evaluated at the defer statement; at every `rundefers`
// dominated by the defer statement the recorded calls run in reverse order.

type deferRec struct {
	in       *ssa.Defer
	callee   *ssa.Function
	args     []Val
	bindings []Val
	reach    *Term // path condition at the defer statement
	snap     map[*ssa.Alloc]Val // write-once locals captured by the literal, as they were at the defer statement
}

var fxDefers = map[*fnExec][]deferRec{}

// recordDefer returns false when the defer statement is outside the supported shape.
func (fx *fnExec) recordDefer(in *ssa.Defer, st *State) bool {
	cc := &in.Call
	if cc.IsInvoke() {
		return false
	}
	callee := cc.StaticCallee()
	if callee == nil {
		return false
	}
	if fx.hdr != nil {
		for _, lp := range fx.loops {
			if lp.Blocks[in.Block()] {
				return false
			}
		}
	}
	var args []Val
	for _, a := range cc.Args {
		args = append(args, fx.value(a, st))
	}
	var bindings []Val
	if mc, ok := cc.Value.(*ssa.MakeClosure); ok {
		for _, b := range mc.Bindings {
			bindings = append(bindings, fx.value(b, st))
		}
	}
	snap := map[*ssa.Alloc]Val{}
	for _, b := range bindings {
		if b.Ptr != nil && b.Ptr.Kind == PLocal && b.Ptr.Alloc != nil && len(b.Ptr.Path) == 0 && storesTo(b.Ptr.Alloc) == 1 {
			if v, ok := st.Allocs[b.Ptr.Alloc]; ok {
				snap[b.Ptr.Alloc] = v
			}
		}
	}
	fxDefers[fx] = append(fxDefers[fx], deferRec{in: in, callee: callee, args: args, bindings: bindings, reach: st.Reach, snap: snap})
	return true
}

func (fx *fnExec) runDefers(at *ssa.RunDefers, st *State) {
	recs := fxDefers[fx]
	for i := len(recs) - 1; i >= 0; i-- {
		r := recs[i]
		fx.curCall = r.in
		if r.in.Block().Dominates(at.Block()) {
			fx.callStatic(r.callee, r.args, r.bindings, st, r.in.Pos(), nil)
			continue
		}
		// conditional defer: the call runs exactly on the paths that went through the defer statement
		yes := st.clone()
		yes.Reach = And(st.Reach, r.reach)
		no := st.clone()
		no.Reach = And(st.Reach, Not(r.reach))
		// a local declared on the conditional path is not part of the merged state any more; when it
		// is written only once (its initialisation, before the defer statement) its value is still
		// the one recorded at the defer statement
		for a, v := range r.snap {
			if _, ok := yes.Allocs[a]; !ok {
				yes.Allocs[a] = v
			}
		}
		if !yes.Reach.IsFalse() {
			fx.callStatic(r.callee, r.args, r.bindings, yes, r.in.Pos(), nil)
		}
		for a := range r.snap {
			if _, ok := st.Allocs[a]; !ok {
				delete(yes.Allocs, a)
			}
		}
		m, err := mergeStates([]edgeIn{{st: yes, cond: yes.Reach}, {st: no, cond: no.Reach}})
		if err != nil {
			fail("%s: conditional defer: %v", fx.fn, err)
		}
		*st = *m
	}
}

// storesTo counts the store instructions whose address is the Alloc itself (in its function and in
// the function literals that capture it).
func storesTo(a *ssa.Alloc) int {
	n := 0
	var visit func(v ssa.Value, depth int)
	visit = func(v ssa.Value, depth int) {
		refs := v.Referrers()
		if refs == nil || depth > 3 {
			n += 2 // unknown: treat as written more than once
			return
		}
		for _, r := range *refs {
			switch r := r.(type) {
			case *ssa.Store:
				if r.Addr == v {
					n++
				}
			case *ssa.MakeClosure:
				fn := r.Fn.(*ssa.Function)
				for i, b := range r.Bindings {
					if b == v && i < len(fn.FreeVars) {
						visit(fn.FreeVars[i], depth+1)
					}
				}
			}
		}
	}
	visit(a, 0)
	return n
}

package main

import (
	"golang.org/x/tools/go/ssa"
)

// Deferred calls: supported when the callee is statically known (a function, a method or a function
// literal made at the defer statement) and the defer statement is not inside a loop. The call's
// arguments and the literal's bindings are evaluated at the defer statement; at every `rundefers`
// dominated by the defer statement the recorded calls run in reverse order.

type deferRec struct {
	in       *ssa.Defer
	callee   *ssa.Function
	args     []Val
	bindings []Val
}

var fxDefers = map[*fnExec][]deferRec{}

// recordDefer returns false when the defer statement is outside the supported shape.
func (fx *fnExec) recordDefer(in *ssa.Defer, st *State) bool {
	cc := &in.Call
	if cc.IsInvoke() {
		return false
	}
	callee := cc.StaticCallee()
	if callee == nil {
		return false
	}
	if fx.hdr != nil {
		for _, lp := range fx.loops {
			if lp.Blocks[in.Block()] {
				return false
			}
		}
	}
	var args []Val
	for _, a := range cc.Args {
		args = append(args, fx.value(a, st))
	}
	var bindings []Val
	if mc, ok := cc.Value.(*ssa.MakeClosure); ok {
		for _, b := range mc.Bindings {
			bindings = append(bindings, fx.value(b, st))
		}
	}
	fxDefers[fx] = append(fxDefers[fx], deferRec{in: in, callee: callee, args: args, bindings: bindings})
	return true
}

func (fx *fnExec) runDefers(at *ssa.RunDefers, st *State) {
	recs := fxDefers[fx]
	for i := len(recs) - 1; i >= 0; i-- {
		r := recs[i]
		if !r.in.Block().Dominates(at.Block()) {
			fail("%s: defer statement does not dominate a return (conditional defer is not supported)", fx.fn)
		}
		fx.curCall = r.in
		fx.callStatic(r.callee, r.args, r.bindings, st, r.in.Pos(), nil)
	}
}

package main

import (
	"go/types"

	"golang.org/x/tools/go/ssa"
)

// Escaping locals of the function under execution live in heap cells (go/ssa turns a variable that
// is captured by a function literal into `new T`). A whole-heap havoc of an abstracted callee must
// not forget them when no callee can reach them: a cell is callee-unreachable when its address is
// only loaded from, stored to, or bound into function literals that are themselves only called or
// deferred in place (never passed on), and the literals use the captured variable in the same way.

type protCell struct {
	t   types.Type
	ref *Term
	val Val
}

var unreachableCache = map[*ssa.Alloc]bool{}

func addrOnlyLocalUse(v ssa.Value, depth int) bool {
	if depth > 3 {
		return false
	}
	refs := v.Referrers()
	if refs == nil {
		return false
	}
	for _, r := range *refs {
		switch r := r.(type) {
		case *ssa.Store:
			if r.Val == v {
				return false // the address itself is stored somewhere
			}
		case *ssa.UnOp:
			// load
		case *ssa.DebugRef:
		case *ssa.FieldAddr, *ssa.IndexAddr:
			if !addrOnlyLocalUse(r.(ssa.Value), depth+1) {
				return false
			}
		case *ssa.MakeClosure:
			// the literal must be used only as the callee of a call/defer, and must use the free
			// variable bound to v only locally
			mrefs := r.Referrers()
			if mrefs == nil {
				return false
			}
			for _, mr := range *mrefs {
				switch mr := mr.(type) {
				case *ssa.Defer:
					if mr.Call.Value != r {
						return false
					}
					for _, a := range mr.Call.Args {
						if a == r {
							return false
						}
					}
				case *ssa.Call:
					if mr.Call.Value != r {
						return false
					}
					for _, a := range mr.Call.Args {
						if a == r {
							return false
						}
					}
				case *ssa.DebugRef:
				default:
					return false
				}
			}
			fn := r.Fn.(*ssa.Function)
			for i, b := range r.Bindings {
				if b == v {
					if i >= len(fn.FreeVars) || !addrOnlyLocalUse(fn.FreeVars[i], depth+1) {
						return false
					}
				}
			}
		default:
			return false
		}
	}
	return true
}

func (fx *fnExec) protectedCells(st *State) []protCell {
	var out []protCell
	// the cells of every function on the inline stack: an outer function's locals are as unreachable
	// for the callees of an inlined function as its own
	fns := []*ssa.Function{fx.fn}
	seenFn := map[*ssa.Function]bool{fx.fn: true}
	for _, f := range fx.ex.stack {
		if !seenFn[f] {
			seenFn[f] = true
			fns = append(fns, f)
		}
	}
	for _, f := range fns {
	for _, b := range f.Blocks {
		for _, in := range b.Instrs {
			a, ok := in.(*ssa.Alloc)
			if !ok || !a.Heap {
				continue
			}
			rv, have := st.Regs[a]
			if !have || len(rv.C) != 1 {
				continue
			}
			u, seen := unreachableCache[a]
			if !seen {
				u = addrOnlyLocalUse(a, 0)
				unreachableCache[a] = u
			}
			if debugKey == "cells" {
				println("cell", a.Comment, "unreachable:", u, "fn:", fx.fn.Name())
			}
			if !u {
				continue
			}
			et := a.Type().(*types.Pointer).Elem()
			out = append(out, protCell{t: et, ref: rv.C[0], val: fx.ex.loadObj(st, et, rv.C[0])})
		}
	}
	}
	return out
}

// havocInlineBlocks: in a `havoccalls` unit only callees with at most this many basic blocks (and no
// loops) are executed as their bodies; larger ones are abstracted.
const havocInlineBlocks = 8

// localisable: an escaping local (captured by a function literal) whose address never reaches a
// callee is kept in the state like a non-escaping local instead of in a heap cell: function literals
// that capture it are only called or deferred in place, where they run as inlined bodies with a
// pointer to the local.
func localisable(a *ssa.Alloc) bool {
	if !a.Heap {
		return false
	}
	u, seen := unreachableCache[a]
	if !seen {
		u = addrOnlyLocalUse(a, 0)
		unreachableCache[a] = u
	}
	return u
}

// isHeapAlloc: the Alloc lives in a heap cell (escapes and may be reached by callees).
func isHeapAlloc(a *ssa.Alloc) bool { return a.Heap && !localisable(a) }

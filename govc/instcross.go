package main

// partialTriggers returns, per bound variable of q, the trigger sub-terms that mention exactly that
// one bound variable.
func partialTriggers(q *Term) map[*Term][]*Term {
	bound := map[*Term]bool{}
	for _, b := range q.Bound {
		bound[b] = true
	}
	out := map[*Term][]*Term{}
	seen := map[*Term]bool{}
	memo := map[*Term]bool{}
	var walk func(t *Term)
	walk = func(t *Term) {
		if seen[t] {
			return
		}
		seen[t] = true
		if t.Op == "forall" || t.Op == "exists" {
			return
		}
		if isTriggerOp(t.Op) && containsAny(t, bound, memo) {
			found := map[*Term]bool{}
			varsIn(t, bound, found, map[*Term]bool{})
			if len(found) == 1 {
				for v := range found {
					out[v] = append(out[v], t)
				}
			}
		}
		for _, a := range t.Args {
			walk(a)
		}
	}
	walk(q.Args[0])
	return out
}

// crossInstances instantiates a two-variable quantified fact that has no trigger covering both
// variables: candidates for each variable are found separately and combined.
func crossInstances(s qsite, grounds []*Term) []*Term {
	pt := partialTriggers(s.q)
	if len(pt) != len(s.q.Bound) {
		return nil
	}
	bound := map[*Term]bool{}
	for _, bv := range s.q.Bound {
		bound[bv] = true
	}
	memo := map[*Term]bool{}
	cands := make([][]*Term, len(s.q.Bound))
	for i, bv := range s.q.Bound {
		seen := map[*Term]bool{}
		for _, trig := range pt[bv] {
			for _, g := range grounds {
				if g.Op != trig.Op || g.Sort != trig.Sort {
					continue
				}
				b := map[*Term]*Term{}
				if !matchTerm(trig, g, bound, b, memo) {
					continue
				}
				if v, ok := b[bv]; ok && !seen[v] && len(cands[i]) < 12 {
					seen[v] = true
					cands[i] = append(cands[i], v)
				}
			}
		}
		if len(cands[i]) == 0 {
			return nil
		}
	}
	var out []*Term
	for _, x := range cands[0] {
		for _, y := range cands[1] {
			b := map[*Term]*Term{s.q.Bound[0]: x, s.q.Bound[1]: y}
			inst := Subst(s.q.Args[0], b)
			if len(s.guard) > 0 {
				inst = Implies(And(s.guard...), inst)
			}
			out = append(out, inst)
		}
	}
	return out
}

// skolemizeGoal replaces universally quantified sub-formulas in positive positions of a goal by
// their bodies over fresh constants. The goal is valid iff the result is valid; the fresh constants
// give the engine-side instantiation ground terms (s[k0]) to match hypotheses against.
func skolemizeGoal(t *Term) *Term {
	switch t.Op {
	case "forall":
		m := map[*Term]*Term{}
		for _, b := range t.Bound {
			m[b] = Fresh("sk_"+b.Name, b.Sort)
		}
		return skolemizeGoal(Subst(t.Args[0], m))
	case "=>":
		return Implies(t.Args[0], skolemizeGoal(t.Args[1]))
	case "and":
		na := make([]*Term, len(t.Args))
		for i, a := range t.Args {
			na[i] = skolemizeGoal(a)
		}
		return And(na...)
	case "or":
		na := make([]*Term, len(t.Args))
		for i, a := range t.Args {
			na[i] = skolemizeGoal(a)
		}
		return Or(na...)
	}
	return t
}

package main

import (
	"fmt"
	"go/types"
	"sort"
	"strings"

	"golang.org/x/tools/go/ssa"
)

// State is one symbolic program state: path condition, SSA registers,
// non-escaping locals, heap arrays.
type State struct {
	Reach  *Term
	Regs   map[ssa.Value]Val
	Allocs map[*ssa.Alloc]Val
	Heap   map[string]*Term
	Ghost  map[string]*Term
	Epoch  string // non-empty after a havoc of the whole heap: untouched keys read as epoch symbols, not as the initial heap
}

func newState() *State {
	return &State{Reach: True, Regs: map[ssa.Value]Val{}, Allocs: map[*ssa.Alloc]Val{}, Heap: map[string]*Term{}, Ghost: map[string]*Term{}}
}

func (s *State) clone() *State {
	n := &State{Reach: s.Reach, Epoch: s.Epoch, Regs: make(map[ssa.Value]Val, len(s.Regs)), Allocs: make(map[*ssa.Alloc]Val, len(s.Allocs)), Heap: make(map[string]*Term, len(s.Heap)), Ghost: make(map[string]*Term, len(s.Ghost))}
	for k, v := range s.Regs {
		n.Regs[k] = v
	}
	for k, v := range s.Allocs {
		n.Allocs[k] = v
	}
	for k, v := range s.Heap {
		n.Heap[k] = v
	}
	for k, v := range s.Ghost {
		n.Ghost[k] = v
	}
	return n
}

// heapSorts remembers the sort of every heap key ever used.
var heapSorts = map[string]*Sort{}

// heap0 holds the symbolic initial heap of the unit under verification.
var heap0 = map[string]*Term{}

func initialHeap(key string, s *Sort) *Term {
	if t, ok := heap0[key]; ok {
		return t
	}
	heapSorts[key] = s
	t := Var("H0:"+key, s)
	heap0[key] = t
	return t
}

func (s *State) heapGet(key string, srt *Sort) *Term {
	if t, ok := s.Heap[key]; ok {
		return t
	}
	if s.Epoch != "" {
		initialHeap(key, srt)
		return epochHeap(s.Epoch, key, srt)
	}
	return initialHeap(key, srt)
}

func (s *State) heapSet(key string, t *Term) {
	if debugKey != "" && strings.Contains(key, debugKey) {
		fmt.Printf("heapSet %s := %.200s\n%s\n", key, t.String(), shortStack())
	}
	heapSorts[key] = t.Sort
	if _, ok := heap0[key]; !ok {
		initialHeap(key, t.Sort)
	}
	s.Heap[key] = t
}

const allocKey = "$alloc"

var allocSort = ArraySort(IntSort, BoolSort)

func (s *State) alloc() *Term { return s.heapGet(allocKey, allocSort) }

type edgeIn struct {
	st   *State
	cond *Term // full condition (includes st.Reach)
}

func valEq(a, b Val) bool {
	if len(a.C) != len(b.C) || a.Clo != b.Clo || len(a.Tuple) != len(b.Tuple) {
		return false
	}
	if a.Ptr != b.Ptr {
		// structurally identical meta pointers (the same location computed on two paths)
		if a.Ptr == nil || b.Ptr == nil || !sameMetaPtr(a.Ptr, b.Ptr) {
			return false
		}
	}
	for i := range a.C {
		if a.C[i] != b.C[i] {
			return false
		}
	}
	for i := range a.Tuple {
		if !valEq(a.Tuple[i], b.Tuple[i]) {
			return false
		}
	}
	return true
}

func mergeVals(conds []*Term, vals []Val) (Val, error) {
	r := vals[len(vals)-1]
	for i := len(vals) - 2; i >= 0; i-- {
		v := vals[i]
		if valEq(v, r) {
			continue
		}
		if m, ok := mergeFuncVals(conds[i], v, r); ok {
			r = m
			continue
		}
		if v.Ptr != nil || r.Ptr != nil || v.Clo != nil || r.Clo != nil {
			return Val{}, fmt.Errorf("cannot merge meta-level pointer/closure values")
		}
		if len(v.Tuple) != len(r.Tuple) || len(v.C) != len(r.C) {
			return Val{}, fmt.Errorf("cannot merge values of different shape")
		}
		if v.Tuple != nil {
			nt := make([]Val, len(v.Tuple))
			for k := range v.Tuple {
				m, err := mergeVals([]*Term{conds[i], True}, []Val{v.Tuple[k], r.Tuple[k]})
				if err != nil {
					return Val{}, err
				}
				nt[k] = m
			}
			r = Val{T: r.T, Tuple: nt}
			continue
		}
		nc := make([]*Term, len(v.C))
		for k := range v.C {
			nc[k] = Ite(conds[i], v.C[k], r.C[k])
		}
		r = Val{T: r.T, C: nc}
	}
	return r, nil
}

// mergeStates joins incoming edges into one state.
func mergeStates(ins []edgeIn) (*State, error) {
	var live []edgeIn
	for _, e := range ins {
		if !e.cond.IsFalse() {
			live = append(live, e)
		}
	}
	if len(live) == 0 {
		s := newState()
		s.Reach = False
		return s, nil
	}
	if len(live) == 1 {
		s := live[0].st.clone()
		s.Reach = live[0].cond
		return s, nil
	}
	out := newState()
	conds := make([]*Term, len(live))
	for i, e := range live {
		conds[i] = e.cond
	}
	out.Reach = factoredReach(conds)
	// selectors of the merged values: the edge conditions without the conjuncts they all share (the
	// path condition up to the branch). Under out.Reach the shared part holds, so the values are the
	// same; the terms no longer depend on where the function was called from, which lets identical
	// computations at different sites hash-cons to identical terms.
	conds = relativeConds(conds)
	out.Epoch = live[0].st.Epoch
	for _, e := range live[1:] {
		if e.st.Epoch != out.Epoch {
			out.Epoch = newEpoch() // keys untouched on every path: unknown after the join (sound over-approximation)
		}
	}
	// registers: intersection
	for k, v0 := range live[0].st.Regs {
		vals := []Val{v0}
		ok := true
		for _, e := range live[1:] {
			v, has := e.st.Regs[k]
			if !has {
				ok = false
				break
			}
			vals = append(vals, v)
		}
		if !ok {
			continue
		}
		m, err := mergeVals(conds, vals)
		if err != nil {
			continue // register not usable after the join unless identical; drop it
		}
		out.Regs[k] = m
	}
	for k, v0 := range live[0].st.Allocs {
		vals := []Val{v0}
		ok := true
		for _, e := range live[1:] {
			v, has := e.st.Allocs[k]
			if !has {
				ok = false
				break
			}
			vals = append(vals, v)
		}
		if !ok {
			continue
		}
		m, err := mergeVals(conds, vals)
		if err != nil {
			if pt, ok := k.Type().(*types.Pointer); ok {
				if _, isFn := pt.Elem().Underlying().(*types.Signature); isFn {
					// different function values on the incoming paths: afterwards the local holds an
					// unknown function (a call through it is a dynamic call)
					out.Allocs[k] = freshVal("fnmerge", pt.Elem())
					continue
				}
			}
			// typically the stale parameter cell of an inlined callee that was called with different
			// interior pointers on the two paths: drop it; a later read of a dropped local is an
			// engine error ("not initialised in this state"), never a silent default
			continue
		}
		out.Allocs[k] = m
	}
	keys := map[string]bool{}
	for _, e := range live {
		for k := range e.st.Heap {
			keys[k] = true
		}
	}
	var ks []string
	for k := range keys {
		ks = append(ks, k)
	}
	sort.Strings(ks)
	for _, k := range ks {
		srt := heapSorts[k]
		r := live[len(live)-1].st.heapGet(k, srt)
		for i := len(live) - 2; i >= 0; i-- {
			r = Ite(conds[i], live[i].st.heapGet(k, srt), r)
		}
		out.Heap[k] = r
	}
	gkeys := map[string]bool{}
	for _, e := range live {
		for k := range e.st.Ghost {
			gkeys[k] = true
		}
	}
	for k := range gkeys {
		var r *Term
		for i := len(live) - 1; i >= 0; i-- {
			g, ok := live[i].st.Ghost[k]
			if !ok {
				g = BVI(0, 64)
			}
			if r == nil {
				r = g
			} else {
				r = Ite(conds[i], g, r)
			}
		}
		out.Ghost[k] = r
	}
	return out, nil
}

// ---- heap keys ----

func structName(t types.Type) string { return typeName(t) }

func fldKey(sname string, field int, comp int) string {
	return fmt.Sprintf("F:%s.%d#%d", sname, field, comp)
}
func cellKey(t types.Type, comp int) string { return fmt.Sprintf("C:%s#%d", typeName(t), comp) }
func elemKey(t types.Type, comp int) string { return fmt.Sprintf("E:%s#%d", typeName(t), comp) }
func globKey(g *ssa.Global, comp int) string {
	return fmt.Sprintf("G:%s.%s#%d", g.Pkg.Pkg.Path(), g.Name(), comp)
}

func isStruct(t types.Type) bool {
	_, ok := t.Underlying().(*types.Struct)
	return ok
}

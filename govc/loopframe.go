package main

import (
	"fmt"
	"go/types"
	"sort"
)

// locTargets maps a modifies location to the heap keys and object references it covers.
func (ex *Exec) locTargets(loc Loc, out map[string][]*Term) {
	var addObj func(t types.Type, ref *Term)
	addObj = func(t types.Type, ref *Term) {
		switch u := t.Underlying().(type) {
		case *types.Struct:
			sn := structName(t)
			for i := 0; i < u.NumFields(); i++ {
				ft := u.Field(i).Type()
				if isStruct(ft) || isArray(ft) {
					addObj(ft, ex.emb(sn, i, ref))
				} else {
					for k := range layout(ft) {
						out[fldKey(sn, i, k)] = append(out[fldKey(sn, i, k)], ref)
					}
				}
			}
		case *types.Array:
			for k := range layout(u.Elem()) {
				out[elemKey(u.Elem(), k)] = append(out[elemKey(u.Elem(), k)], ref)
			}
		default:
			for k := range layout(t) {
				out[cellKey(t, k)] = append(out[cellKey(t, k)], ref)
			}
		}
	}
	switch loc.Kind {
	case "elems":
		et := loc.Slice.T.Underlying().(*types.Slice).Elem()
		for k := range layout(et) {
			out[elemKey(et, k)] = append(out[elemKey(et, k)], loc.Slice.C[0])
		}
	case "ptr":
		mp := ex.resolve(loc.Ptr)
		switch mp.Kind {
		case PField:
			for k := range layout(mp.Root) {
				out[fldKey(mp.SName, mp.Field, k)] = append(out[fldKey(mp.SName, mp.Field, k)], mp.Ref)
			}
		case PObj, PArr, PCell:
			addObj(mp.Root, mp.Ref)
		case PElem:
			for k := range layout(mp.Root) {
				out[elemKey(mp.Root, k)] = append(out[elemKey(mp.Root, k)], mp.Ref)
			}
		}
	}
}

type loopFrame struct {
	targets map[string][]*Term // key -> refs the loop may write
	pre     map[string]*Term   // key -> heap before the loop (and before the havoc)
	preOther map[string]*Term  // undeclared keys: heap before the loop (pre-existing objects stay unchanged)
	allocPre *Term             // allocation set at loop entry
}

// declareLoopFrame evaluates `loop k modifies` clauses at loop entry.
func (fx *fnExec) declareLoopFrame(lp *Loop, spec *LoopSpec, st *State) *loopFrame {
	if len(spec.Modifies) == 0 {
		return nil
	}
	lf := &loopFrame{targets: map[string][]*Term{}, pre: map[string]*Term{}, preOther: map[string]*Term{}, allocPre: st.alloc()}
	for _, m := range spec.Modifies {
		env := fx.specEnv(st, fx.entry, lp)
		loc := env.evalLoc(m)
		fx.ex.locTargets(loc, lf.targets)
	}
	for k := range lf.targets {
		if srt, ok := heapSorts[k]; ok {
			lf.pre[k] = st.heapGet(k, srt)
		}
	}
	return lf
}

// havocTargets replaces only the declared rows/cells of a heap key by fresh values.
func (fx *fnExec) havocTargets(lp *Loop, lf *loopFrame, key string, st *State) bool {
	refs, ok := lf.targets[key]
	if !ok {
		// a loop with a declared frame writes every other heap key only at objects it allocates
		// itself: objects that existed before the loop keep their contents (checked at back edges)
		if key == allocKey || len(key) < 2 || key[1] != ':' || key[0] == 'G' || key[0] == 'M' {
			return false
		}
		srt := heapSorts[key]
		if srt == nil || srt.Kind != KArray || srt.Idx != IntSort {
			return false
		}
		pre := st.heapGet(key, srt)
		lf.preOther[key] = pre
		nw := Fresh(fmt.Sprintf("L%d_%s", lp.Ordinal, key), srt)
		r := Fresh("r", IntSort)
		fx.ex.assume(st, Forall([]*Term{r}, Implies(Select(lf.allocPre, r), Eq(Select(nw, r), Select(pre, r))), Select(nw, r)))
		st.heapSet(key, nw)
		return true
	}
	srt := heapSorts[key]
	if srt == nil {
		return true
	}
	h := st.heapGet(key, srt)
	if _, has := lf.pre[key]; !has {
		lf.pre[key] = h
	}
	// objects that existed before the loop and are not named by the frame keep their contents;
	// the named ones and everything the loop allocates itself are unknown at the loop head
	nw := Fresh(fmt.Sprintf("L%d_%s", lp.Ordinal, key), srt)
	r := Fresh("r", IntSort)
	conds := []*Term{Select(lf.allocPre, r)}
	for _, d := range refs {
		conds = append(conds, Neq(r, d))
	}
	fx.ex.assume(st, Forall([]*Term{r}, Implies(And(conds...), Eq(Select(nw, r), Select(h, r))), Select(nw, r)))
	st.heapSet(key, nw)
	return true
}

// checkLoopFrame: at a back edge, every heap key with a declared loop frame is unchanged outside
// the declared references (relative to the heap before the loop).
func (fx *fnExec) checkLoopFrame(lp *Loop, lf *loopFrame, st *State) {
	var keys []string
	for k := range lf.targets {
		keys = append(keys, k)
	}
	sort.Strings(keys)
	for _, k := range keys {
		pre, ok := lf.pre[k]
		if !ok {
			continue
		}
		cur := st.heapGet(k, pre.Sort)
		r := Fresh("lf_r", IntSort)
		conds := []*Term{Select(lf.allocPre, r)}
		for _, m := range lf.targets[k] {
			conds = append(conds, Neq(r, m))
		}
		goal := Implies(And(conds...), Eq(Select(cur, r), Select(pre, r)))
		fx.oblige(fmt.Sprintf("loopframe.%d.%s", lp.Ordinal, k), "frame", st, goal, lp.Pos, "loop writes "+k+" only at the references of its `loop modifies` clause")
	}
	var others []string
	for k := range lf.preOther {
		others = append(others, k)
	}
	sort.Strings(others)
	for _, k := range others {
		pre := lf.preOther[k]
		cur := st.heapGet(k, pre.Sort)
		r := Fresh("lf_r", IntSort)
		goal := Implies(Select(lf.allocPre, r), Eq(Select(cur, r), Select(pre, r)))
		fx.oblige(fmt.Sprintf("loopframe.%d.%s", lp.Ordinal, k), "frame", st, goal, lp.Pos, "loop leaves objects that existed before it unchanged in "+k)
	}
}

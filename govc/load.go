package main

import (
	"fmt"
	"go/ast"
	"go/token"
	"go/types"
	"os"
	"path/filepath"
	"sort"
	"strings"

	"golang.org/x/tools/go/packages"
	"golang.org/x/tools/go/ssa"
	"golang.org/x/tools/go/ssa/ssautil"
)

type Loader struct {
	Fset  *token.FileSet
	Prog  *ssa.Program
	Pkgs  map[string]*packages.Package // by import path
	SPkgs map[string]*ssa.Package
	CS    *ContractSet
	// contracts per package path
	PkgContracts map[string]*ContractSet
	LoadSecs     float64
}

// repoDir is the tree under verification; GOVC_REPO points development runs at a scratch worktree
// (registered checks never set it).
var repoDir = func() string {
	if d := os.Getenv("GOVC_REPO"); d != "" {
		return d
	}
	return "/repo"
}()
const modPath = "golang.org/x/net"

func goEnv() []string {
	// exec.LookPath uses this process's PATH: put the go1.26.8 toolchain first for loading
	if !strings.HasPrefix(os.Getenv("PATH"), "/opt/veriftools/go1.26.8/bin:") {
		os.Setenv("PATH", "/opt/veriftools/go1.26.8/bin:"+os.Getenv("PATH"))
	}
	env := os.Environ()
	var out []string
	for _, e := range env {
		if strings.HasPrefix(e, "PATH=") || strings.HasPrefix(e, "GOTOOLCHAIN=") || strings.HasPrefix(e, "GOFLAGS=") ||
			strings.HasPrefix(e, "GOPROXY=") || strings.HasPrefix(e, "GOSUMDB=") {
			continue
		}
		out = append(out, e)
	}
	out = append(out, "PATH=/opt/veriftools/go1.26.8/bin:"+os.Getenv("PATH"), "GOTOOLCHAIN=local", "GOFLAGS=-mod=mod", "GOPROXY=off", "GOSUMDB=off")
	return out
}

func Load(patterns ...string) (*Loader, error) {
	fset := token.NewFileSet()
	cfg := &packages.Config{
		Mode:       packages.LoadAllSyntax,
		Dir:        repoDir,
		Fset:       fset,
		BuildFlags: []string{"-tags=verif"},
		Env:        goEnv(),
	}
	pkgs, err := packages.Load(cfg, patterns...)
	if err != nil {
		return nil, err
	}
	var errs []string
	packages.Visit(pkgs, nil, func(p *packages.Package) {
		for _, e := range p.Errors {
			errs = append(errs, e.Error())
		}
	})
	if len(errs) > 0 {
		sort.Strings(errs)
		if len(errs) > 10 {
			errs = errs[:10]
		}
		return nil, fmt.Errorf("load errors:\n%s", strings.Join(errs, "\n"))
	}
	prog, _ := ssautil.AllPackages(pkgs, ssa.NaiveForm|ssa.GlobalDebug|ssa.InstantiateGenerics)
	prog.Build()
	l := &Loader{Fset: fset, Prog: prog, Pkgs: map[string]*packages.Package{}, SPkgs: map[string]*ssa.Package{}, PkgContracts: map[string]*ContractSet{}}
	packages.Visit(pkgs, nil, func(p *packages.Package) {
		l.Pkgs[p.PkgPath] = p
		if sp := prog.Package(p.Types); sp != nil {
			l.SPkgs[p.PkgPath] = sp
		}
	})
	// contracts: every file of a repo package that contains //@ lines
	for path, p := range l.Pkgs {
		if !strings.HasPrefix(path, modPath) {
			continue
		}
		cs := &ContractSet{ByKey: map[string]*Contract{}, Funcs: map[string]*Contract{}}
		files := append([]string{}, p.CompiledGoFiles...)
		// the package's main contract file first, then the others in name order (override/extend
		// refer to contracts declared in earlier files)
		sort.Slice(files, func(i, j int) bool {
			mi, mj := filepath.Base(files[i]) == "verif_contracts.go", filepath.Base(files[j]) == "verif_contracts.go"
			if mi != mj {
				return mi
			}
			return files[i] < files[j]
		})
		for _, f := range files {
			if !strings.HasPrefix(filepath.Base(f), "verif_") {
				continue
			}
			src, err := os.ReadFile(f)
			if err != nil {
				return nil, err
			}
			if err := ParseContracts(token.NewFileSet(), f, src, cs); err != nil {
				return nil, err
			}
		}
		l.PkgContracts[path] = cs
	}
	// trusted contracts for dependencies
	if ents, err := filepath.Glob("/verif/stdlib/*.contracts"); err == nil {
		for _, f := range ents {
			src, err := os.ReadFile(f)
			if err != nil {
				return nil, err
			}
			// file format: "package <path>" header lines switch the target package
			if err := l.parseStdContracts(f, string(src)); err != nil {
				return nil, err
			}
		}
	}
	return l, nil
}

func (l *Loader) parseStdContracts(file, src string) error {
	// split by lines "//@ package <path>"
	var cur, only string
	var buf []string
	flush := func() error {
		if cur == "" || len(buf) == 0 {
			return nil
		}
		cs := l.PkgContracts[cur]
		if cs == nil {
			cs = &ContractSet{ByKey: map[string]*Contract{}, Funcs: map[string]*Contract{}}
			l.PkgContracts[cur] = cs
		}
		text := "package x\n" + strings.Join(buf, "\n") + "\n"
		before := map[string]bool{}
		for k := range cs.ByKey {
			before[k] = true
		}
		cs.LenientDup = true
		err := ParseContracts(token.NewFileSet(), file, []byte(text), cs)
		cs.LenientDup = false
		if err != nil {
			return err
		}
		for k, c := range cs.ByKey {
			if !before[k] {
				c.Trusted = true
			}
		}
		return nil
	}
	for _, line := range strings.Split(src, "\n") {
		t := strings.TrimSpace(line)
		if strings.HasPrefix(t, "//@ only ") {
			// the entries of this file apply only to units of the named package (and there they take
			// precedence over unrestricted entries)
			if err := flush(); err != nil {
				return err
			}
			only = strings.TrimSpace(strings.TrimPrefix(t, "//@ only "))
			buf = nil
			continue
		}
		if strings.HasPrefix(t, "//@ package ") {
			if err := flush(); err != nil {
				return err
			}
			cur = strings.TrimSpace(strings.TrimPrefix(t, "//@ package "))
			if only != "" {
				cur = only + "|" + cur
			}
			buf = nil
			continue
		}
		buf = append(buf, line)
	}
	return flush()
}

// funcKey gives the contract key of an SSA function: "Name", "(*T).m", "(T).m", "outer$1".
func funcKey(fn *ssa.Function) string {
	if fn.Signature.Recv() != nil && fn.Parent() == nil {
		rt := fn.Signature.Recv().Type()
		star := ""
		if p, ok := rt.(*types.Pointer); ok {
			rt = p.Elem()
			star = "*"
		}
		name := types.TypeString(rt, func(*types.Package) string { return "" })
		return "(" + star + name + ")." + fn.Name()
	}
	if fn.Parent() != nil {
		return funcKey(fn.Parent()) + strings.TrimPrefix(fn.Name(), fn.Parent().Name())
	}
	return fn.Name()
}

// currentUnitPkg is the package of the unit being verified (scoped dependency contracts: `//@ only`).
var currentUnitPkg string

func (l *Loader) contractFor(fn *ssa.Function) *Contract {
	if fn.Pkg == nil {
		// instantiated generic or synthetic wrapper: use origin's package
		if o := fn.Origin(); o != nil && o.Pkg != nil {
			if currentUnitPkg != "" {
				if scs := l.PkgContracts[currentUnitPkg+"|"+o.Pkg.Pkg.Path()]; scs != nil {
					if c, ok := scs.ByKey[funcKey(fn)]; ok {
						return c
					}
				}
			}
			cs := l.PkgContracts[o.Pkg.Pkg.Path()]
			if cs != nil {
				if c, ok := cs.ByKey[funcKey(fn)]; ok {
					return c
				}
			}
		}
		return nil
	}
	if currentUnitPkg != "" {
		if scs := l.PkgContracts[currentUnitPkg+"|"+fn.Pkg.Pkg.Path()]; scs != nil {
			if c, ok := scs.ByKey[funcKey(fn)]; ok {
				return c
			}
		}
	}
	cs := l.PkgContracts[fn.Pkg.Pkg.Path()]
	if cs == nil {
		return nil
	}
	k := funcKey(fn)
	if c, ok := cs.ByKey[k]; ok {
		return c
	}
	if fn.Signature.Recv() == nil && fn.Parent() == nil {
		if c, ok := cs.Funcs[fn.Name()]; ok {
			return c
		}
	}
	return nil
}

// findFunc resolves a contract key inside a package.
func (l *Loader) findFunc(pkgPath, key string) *ssa.Function {
	sp := l.SPkgs[pkgPath]
	if sp == nil {
		return nil
	}
	var found *ssa.Function
	visit := func(fn *ssa.Function) {
		if fn != nil && found == nil && funcKey(fn) == key {
			found = fn
		}
	}
	for _, m := range sp.Members {
		switch m := m.(type) {
		case *ssa.Function:
			visit(m)
			for _, a := range m.AnonFuncs {
				visitAnon(a, visit)
			}
		case *ssa.Type:
			for _, t := range []types.Type{m.Type(), types.NewPointer(m.Type())} {
				ms := l.Prog.MethodSets.MethodSet(t)
				for i := 0; i < ms.Len(); i++ {
					fn := l.Prog.MethodValue(ms.At(i))
					if fn != nil && fn.Synthetic == "" {
						visit(fn)
						for _, a := range fn.AnonFuncs {
							visitAnon(a, visit)
						}
					}
				}
			}
		}
	}
	if found != nil {
		return found
	}
	// generic instantiations
	for fn := range ssautil.AllFunctions(l.Prog) {
		if fn.Origin() != nil && fn.Origin().Pkg == sp {
			visit(fn)
		}
	}
	return found
}

func visitAnon(fn *ssa.Function, visit func(*ssa.Function)) {
	visit(fn)
	for _, a := range fn.AnonFuncs {
		visitAnon(a, visit)
	}
}

func (l *Loader) posStr(p token.Pos) string {
	if !p.IsValid() {
		return ""
	}
	ps := l.Fset.Position(p)
	return fmt.Sprintf("%s:%d", strings.TrimPrefix(ps.Filename, repoDir+"/"), ps.Line)
}

// globalInit finds the initializer expression of a package-level variable.
func (l *Loader) globalInit(g *ssa.Global) (ast.Expr, *types.Info) {
	p := l.Pkgs[g.Pkg.Pkg.Path()]
	if p == nil {
		return nil, nil
	}
	for _, f := range p.Syntax {
		for _, d := range f.Decls {
			gd, ok := d.(*ast.GenDecl)
			if !ok || gd.Tok != token.VAR {
				continue
			}
			for _, s := range gd.Specs {
				vs := s.(*ast.ValueSpec)
				for i, n := range vs.Names {
					if n.Name == g.Name() && p.TypesInfo.Defs[n] == g.Object() {
						if len(vs.Values) == len(vs.Names) {
							return vs.Values[i], p.TypesInfo
						}
						return nil, p.TypesInfo
					}
				}
			}
		}
	}
	return nil, nil
}

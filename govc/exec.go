package main

// Symbolic execution of go/ssa functions (NaiveForm) with state merging,
// loop cutting by invariants, complete unrolling of constant-trip loops,
// and emission of proof obligations.

import (
	"fmt"
	"go/token"
	"go/types"
	"sort"
	"strings"

	"golang.org/x/tools/go/ssa"
)

type EngineError struct{ Msg string }

func (e *EngineError) Error() string { return e.Msg }

func fail(format string, a ...interface{}) {
	panic(&EngineError{fmt.Sprintf(format, a...)})
}

type NamedVal struct {
	Name string
	V    Val
}

type Obl struct {
	Name      string
	Kind      string
	Unit      string
	Assume    []*Term
	Reach     *Term
	Goal      *Term // nil for cover queries
	ExpectSat bool
	Pos       string
	Src       string
	Bounded   bool
	Trivial   bool
	Candidate bool // the model comes from a weakened (quantifier-free) query: a candidate until replayed
	// results
	Status  string // discharged, failed, unknown, cover-ok, cover-vacuous
	Solver  string
	Ms      int64
	Model   map[string]string
	Output  string
	Inputs  []NamedVal
	Heap0   map[string]*Term
	KnownRegion string
	Subs        []*Obl // per-return-site parts; the obligation holds iff all parts do
	Secs        int // solver budget override for this obligation (0: the tier's budget)
	FixedArgs   map[string]string // `each` instances: parameter name -> Go expression of the constant
}

type Exec struct {
	L           *Loader
	Unit        string
	Obls        []*Obl
	Assume      []*Term
	Dropped     map[string]bool
	TrustedUsed map[string]bool
	Inlined     map[string]bool
	UnderContr  map[string]bool
	Bounded     bool
	BoundK      int
	Inputs      []NamedVal
	embSeen     map[*Term]bool
	oblNames    map[string]int
	depth       int
	stack       []*ssa.Function
	tags        map[string]int
	tagTypes    []types.Type
	tagType     map[int]types.Type // type tag -> dynamic type (for devirtualising interface calls)
	globConst   map[*ssa.Global]*Val
	specDepth   int
	TopRets     []edgeIn
	TopRetVals  []Val
	UseBodyOf   []string
	Partial     map[string]bool
	Fixed       map[string]Val // unit inputs fixed to constants (clause `each`)
	UsedLemmas  []string
	Hidden      map[string]bool
	HavocCallsC *Contract   // synthetic contract of `havoccalls` (nil when the unit does not use it)
	Kept        []keptField // fields kept across abstracted calls
	HavocSites  []havocSite
	strKeys     []Val // strings used as map keys in this unit (content identity axioms)
	UnitTimeout int // `timeout N` of the unit's contract
	AbstractNames map[string]bool // callees abstracted by name in a havoccalls unit (clause abstractcall)
}

func NewExec(l *Loader, unit string) *Exec {
	return &Exec{L: l, Unit: unit, Dropped: map[string]bool{}, TrustedUsed: map[string]bool{}, Inlined: map[string]bool{},
		UnderContr: map[string]bool{}, embSeen: map[*Term]bool{}, oblNames: map[string]int{}, tags: map[string]int{},
		globConst: map[*ssa.Global]*Val{}}
}

func (ex *Exec) assume(st *State, fact *Term) {
	f := Implies(st.Reach, fact)
	if f.IsTrue() {
		return
	}
	f = closeOverSpecBound(f)
	ex.Assume = append(ex.Assume, f)
}

func (ex *Exec) assumeAll(st *State, facts []*Term) {
	for _, f := range facts {
		ex.assume(st, f)
	}
}

// ---- loops ----

type Loop struct {
	Header  *ssa.BasicBlock
	Blocks  map[*ssa.BasicBlock]bool
	Ordinal int
	Pos     token.Pos
}

func findLoops(fn *ssa.Function) []*Loop {
	byHeader := map[*ssa.BasicBlock]*Loop{}
	for _, b := range fn.Blocks {
		for _, s := range b.Succs {
			if s.Dominates(b) { // back edge b -> s
				lp := byHeader[s]
				if lp == nil {
					lp = &Loop{Header: s, Blocks: map[*ssa.BasicBlock]bool{s: true}}
					byHeader[s] = lp
				}
				// natural loop: nodes reaching b without passing s
				var stack []*ssa.BasicBlock
				if !lp.Blocks[b] {
					lp.Blocks[b] = true
					stack = append(stack, b)
				}
				for len(stack) > 0 {
					x := stack[len(stack)-1]
					stack = stack[:len(stack)-1]
					for _, p := range x.Preds {
						if !lp.Blocks[p] {
							lp.Blocks[p] = true
							stack = append(stack, p)
						}
					}
				}
			}
		}
	}
	var loops []*Loop
	for _, lp := range byHeader {
		min := token.Pos(0)
		for b := range lp.Blocks {
			for _, in := range b.Instrs {
				if p := in.Pos(); p.IsValid() && (min == 0 || p < min) {
					min = p
				}
			}
		}
		lp.Pos = min
		loops = append(loops, lp)
	}
	sort.Slice(loops, func(i, j int) bool {
		if loops[i].Pos != loops[j].Pos {
			return loops[i].Pos < loops[j].Pos
		}
		return loops[i].Header.Index < loops[j].Header.Index
	})
	for i, lp := range loops {
		lp.Ordinal = i + 1
	}
	return loops
}

func rpo(fn *ssa.Function) []*ssa.BasicBlock {
	seen := map[*ssa.BasicBlock]bool{}
	var post []*ssa.BasicBlock
	var dfs func(b *ssa.BasicBlock)
	dfs = func(b *ssa.BasicBlock) {
		seen[b] = true
		for _, s := range b.Succs {
			if seen[s] || s.Dominates(b) {
				continue
			}
			dfs(s)
		}
		post = append(post, b)
	}
	dfs(fn.Blocks[0])
	for i, j := 0, len(post)-1; i < j; i, j = i+1, j-1 {
		post[i], post[j] = post[j], post[i]
	}
	return post
}

// ---- function activation ----

type fnExec struct {
	ex       *Exec
	fn       *ssa.Function
	c        *Contract
	args     []Val
	entry    *State
	loops    []*Loop
	hdr      map[*ssa.BasicBlock]*Loop
	order    []*ssa.BasicBlock
	incoming map[*ssa.BasicBlock][]edgeIn
	done     map[*ssa.BasicBlock]bool
	rets     []edgeIn
	retVals  []Val
	prefix   string
	top      bool
	cutting  map[*Loop]bool
	unrolling map[*Loop]bool
	paramEnv map[string]Val
	callCount map[string]int
	loopEntry map[*Loop]*State
	loopFrames map[*Loop]*loopFrame
	loopHeadSt map[*Loop]*State
	curCall    ssa.CallInstruction // the call being executed (for havoccalls bookkeeping)
}

func shortPkg(fn *ssa.Function) string {
	p := fn.Pkg
	if p == nil && fn.Origin() != nil {
		p = fn.Origin().Pkg
	}
	if p == nil {
		return "?"
	}
	return p.Pkg.Name()
}

// runFunc executes fn from state st (mutated) and returns the merged return value and exit state.
func (ex *Exec) runFunc(fn *ssa.Function, args []Val, bindings []Val, st *State, top bool, c *Contract) (Val, *State) {
	if fn.Blocks == nil {
		fail("function %s has no body", fn)
	}
	for _, f := range ex.stack {
		if f == fn {
			fail("recursive inlining of %s; give it a contract", fn)
		}
	}
	if len(ex.stack) > 12 {
		fail("inlining too deep at %s", fn)
	}
	ex.stack = append(ex.stack, fn)
	defer func() { ex.stack = ex.stack[:len(ex.stack)-1] }()

	fx := &fnExec{ex: ex, fn: fn, c: c, args: args, top: top, incoming: map[*ssa.BasicBlock][]edgeIn{}, done: map[*ssa.BasicBlock]bool{},
		hdr: map[*ssa.BasicBlock]*Loop{}, cutting: map[*Loop]bool{}, unrolling: map[*Loop]bool{}, callCount: map[string]int{}, loopEntry: map[*Loop]*State{}}
	fx.prefix = shortPkg(fn) + "." + funcKey(fn)
	fx.loops = findLoops(fn)
	for _, lp := range fx.loops {
		fx.hdr[lp.Header] = lp
	}
	fx.order = rpo(fn)
	// registers and locals of all active frames share the state's maps (SSA values are unique per function;
	// recursion is excluded above), so interior pointers to caller locals stay valid in inlined callees.
	for i, p := range fn.Params {
		st.Regs[p] = args[i]
	}
	for i, fv := range fn.FreeVars {
		if i < len(bindings) {
			st.Regs[fv] = bindings[i]
		}
	}
	fx.entry = st.clone()
	fx.paramEnv = map[string]Val{}
	fx.incoming[fn.Blocks[0]] = []edgeIn{{st: st, cond: st.Reach}}
	fx.runRegion(fx.order, nil)
	if top {
		ex.TopRets, ex.TopRetVals = fx.rets, fx.retVals
	}
	// merge returns
	out, err := mergeStates(fx.rets)
	if err != nil {
		fail("%s: %v", fn, err)
	}
	var rv Val
	if len(fx.rets) > 0 && !out.Reach.IsFalse() {
		var conds []*Term
		var vals []Val
		for i, e := range fx.rets {
			if e.cond.IsFalse() {
				continue
			}
			conds = append(conds, e.cond)
			vals = append(vals, fx.retVals[i])
		}
		rv, err = mergeVals(relativeConds(conds), vals)
		if err != nil {
			fail("%s: merging return values: %v", fn, err)
		}
	} else {
		rv = ex.zeroResults(fn)
	}
	return rv, out
}

func (ex *Exec) zeroResults(fn *ssa.Function) Val {
	res := fn.Signature.Results()
	switch res.Len() {
	case 0:
		return Val{}
	case 1:
		return zeroVal(res.At(0).Type())
	}
	t := make([]Val, res.Len())
	for i := range t {
		t[i] = zeroVal(res.At(i).Type())
	}
	return Val{T: res, Tuple: t}
}

func (fx *fnExec) loopSpec(lp *Loop) *LoopSpec {
	if fx.c == nil {
		return nil
	}
	return fx.c.Loops[lp.Ordinal]
}

func (fx *fnExec) runRegion(blocks []*ssa.BasicBlock, region *Loop) {
	for _, b := range blocks {
		if fx.done[b] {
			continue
		}
		if lp := fx.hdr[b]; lp != nil && lp != region {
			spec := fx.loopSpec(lp)
			if spec != nil && len(spec.Inv) > 0 {
				fx.cutLoop(lp, spec)
				continue
			}
			fx.unrollLoop(lp, spec, blocks)
			continue
		}
		fx.execBlockFromIncoming(b)
	}
}

func (fx *fnExec) execBlockFromIncoming(b *ssa.BasicBlock) {
	ins := fx.incoming[b]
	delete(fx.incoming, b)
	fx.done[b] = true
	st, err := mergeStates(ins)
	if err != nil {
		fail("%s block %d: %v", fx.fn, b.Index, err)
	}
	if st.Reach.IsFalse() {
		return
	}
	fx.execBlock(b, st)
}

func (fx *fnExec) execBlock(b *ssa.BasicBlock, st *State) {
	for _, in := range b.Instrs {
		if st.Reach.IsFalse() {
			return
		}
		fx.step(in, st, b)
	}
}

func (fx *fnExec) addEdge(from, to *ssa.BasicBlock, st *State, cond *Term) {
	if cond.IsFalse() {
		return
	}
	// back edge into a loop that is being cut: check the invariant instead
	if lp := fx.hdr[to]; lp != nil && lp.Blocks[from] && fx.cutting[lp] {
		s2 := st.clone()
		s2.Reach = cond
		fx.checkInvariant(lp, s2, "preserve")
		if spec := fx.loopSpec(lp); spec != nil {
			for i, cl := range spec.Step {
				env := fx.specEnv(s2, fx.entry, lp)
				env.loopEntry = fx.loopEntry[lp]
				env.iterSt = fx.loopHeadSt[lp]
				fx.oblige(fmt.Sprintf("step.%d.%d", lp.Ordinal, i+1), "inv", s2, env.evalBool(cl), lp.Pos, cl.Src)
			}
		}
		if lf := fx.loopFrames[lp]; lf != nil {
			fx.checkLoopFrame(lp, lf, s2)
		}
		return
	}
	// phi nodes: evaluate at edge
	s2 := st
	hasPhi := false
	for _, in := range to.Instrs {
		if _, ok := in.(*ssa.Phi); ok {
			hasPhi = true
		}
	}
	if hasPhi {
		s2 = st.clone()
		idx := -1
		for i, p := range to.Preds {
			if p == from {
				idx = i
			}
		}
		for _, in := range to.Instrs {
			phi, ok := in.(*ssa.Phi)
			if !ok {
				break
			}
			s2.Regs[phi] = fx.value(phi.Edges[idx], st)
		}
	}
	fx.incoming[to] = append(fx.incoming[to], edgeIn{st: s2, cond: cond})
}

// ---- loop cutting ----

func (fx *fnExec) loopBlocksOrdered(lp *Loop, within []*ssa.BasicBlock) []*ssa.BasicBlock {
	var out []*ssa.BasicBlock
	for _, b := range fx.order {
		if lp.Blocks[b] {
			out = append(out, b)
		}
	}
	return out
}

func (fx *fnExec) cutLoop(lp *Loop, spec *LoopSpec) {
	h := lp.Header
	ins := fx.incoming[h]
	delete(fx.incoming, h)
	st, err := mergeStates(ins)
	if err != nil {
		fail("%s loop %d: %v", fx.fn, lp.Ordinal, err)
	}
	if st.Reach.IsFalse() {
		for b := range lp.Blocks {
			fx.done[b] = true
		}
		return
	}
	fx.loopEntryGhosts(lp, st)
	fx.loopEntry[lp] = st.clone()
	fx.checkInvariant(lp, st, "entry")
	if fx.loopFrames == nil {
		fx.loopFrames = map[*Loop]*loopFrame{}
	}
	fx.loopFrames[lp] = fx.declareLoopFrame(lp, spec, st)
	// havoc
	fx.havocLoop(lp, st, spec)
	// assume invariant
	for _, cl := range spec.Inv {
		env := fx.specEnv(st, fx.entry, lp)
		env.loopEntry = fx.loopEntry[lp]
		t := env.evalBool(cl)
		fx.ex.assume(st, t)
	}
	for _, cl := range spec.Assumed {
		env := fx.specEnv(st, fx.entry, lp)
		env.loopEntry = fx.loopEntry[lp]
		fx.ex.assume(st, env.evalBool(cl))
		fx.ex.Dropped[fmt.Sprintf("assumed (not checked) at the head of loop %d of %s: %s", lp.Ordinal, fx.prefix, cl.Src)] = true
	}
	if fx.loopHeadSt == nil {
		fx.loopHeadSt = map[*Loop]*State{}
	}
	fx.loopHeadSt[lp] = st.clone()
	fx.cutting[lp] = true
	fx.done[h] = true
	fx.execBlock(h, st)
	body := fx.loopBlocksOrdered(lp, nil)
	fx.runRegion(body[1:], lp)
	fx.cutting[lp] = false
}

func (fx *fnExec) checkInvariant(lp *Loop, st *State, which string) {
	spec := fx.loopSpec(lp)
	for i, cl := range spec.Inv {
		env := fx.specEnv(st, fx.entry, lp)
		env.loopEntry = fx.loopEntry[lp]
		t := env.evalBool(cl)
		fx.oblige(fmt.Sprintf("inv.%d.%s.%d", lp.Ordinal, which, i+1), "inv", st, t, lp.Pos, cl.Src)
	}
}

// havocLoop replaces everything the loop may modify by fresh values.
func (fx *fnExec) havocLoop(lp *Loop, st *State, spec *LoopSpec) {
	// ghost counters of the unit may be advanced by calls inside the loop: at the head of an
	// arbitrary iteration their value is unknown (loop invariants constrain it; atloop(ghost(g))
	// is the value at loop entry)
	if fx.c != nil {
		for _, g := range fx.c.Ghost {
			if fx.loopMayCall(lp, g.Callee) || fx.loopContainsLoopHook(lp, g.Callee) {
				st.Ghost[g.Name] = Fresh(fmt.Sprintf("L%d_ghost_%s", lp.Ordinal, g.Name), BV64)
			}
		}
	}
	allocs := map[*ssa.Alloc]bool{}
	keys := map[string]bool{}
	var scan func(fn *ssa.Function, blocks map[*ssa.BasicBlock]bool, depth int)
	scan = func(fn *ssa.Function, blocks map[*ssa.BasicBlock]bool, depth int) {
		for _, b := range fn.Blocks {
			if blocks != nil && !blocks[b] {
				continue
			}
			for _, in := range b.Instrs {
				switch in := in.(type) {
				case *ssa.Store:
					fx.modTargets(in.Addr, allocs, keys)
				case *ssa.MapUpdate:
					keys["map:"+typeName(in.Map.Type())] = true
				case *ssa.Alloc:
					if isHeapAlloc(in) {
						keys[allocKey] = true
						fx.keysOfObject(in.Type().(*types.Pointer).Elem(), keys)
					}
				case *ssa.MakeSlice:
					keys[allocKey] = true
					fx.keysOfElem(in.Type().Underlying().(*types.Slice).Elem(), keys)
				case *ssa.Convert:
					if _, ok := in.Type().Underlying().(*types.Slice); ok {
						keys[allocKey] = true
						fx.keysOfElem(in.Type().Underlying().(*types.Slice).Elem(), keys)
					}
				case ssa.CallInstruction:
					fx.callMods(in, allocs, keys, depth, scan)
				}
			}
		}
	}
	scan(fx.fn, lp.Blocks, 0)
	// range iterators advanced inside the loop
	for _, b := range fx.fn.Blocks {
		if !lp.Blocks[b] {
			continue
		}
		for _, in := range b.Instrs {
			nx, ok := in.(*ssa.Next)
			if !ok {
				continue
			}
			it, ok := st.Regs[nx.Iter]
			if !ok || it.Tuple == nil {
				continue
			}
			np := Fresh(fmt.Sprintf("L%d_rangepos", lp.Ordinal), BV64)
			x := it.Tuple[0]
			if len(x.C) >= 3 {
				fx.ex.assume(st, And(BVSle(BVI(0, 64), np), BVSle(np, x.C[2])))
			}
			st.Regs[nx.Iter] = Val{T: it.T, Tuple: []Val{x, intVal(np)}}
		}
	}
	var names []string
	byName := map[string]*ssa.Alloc{}
	for a := range allocs {
		// a unique, run-independent key: the hidden `rangeindex` variables of two nested range loops
		// have the same comment and no position
		n := allocOrderKey(a)
		names = append(names, n)
		byName[n] = a
	}
	sort.Strings(names)
	for _, n := range names {
		a := byName[n]
		if _, ok := st.Allocs[a]; !ok {
			continue
		}
		t := a.Type().(*types.Pointer).Elem()
		v := freshVal(fmt.Sprintf("L%d_%s", lp.Ordinal, a.Comment), t)
		st.Allocs[a] = v
		fx.ex.assumeAll(st, typeInv(v, 0))
		fx.ex.assumeHeapWF(st, v)
	}
	var ks []string
	for k := range keys {
		ks = append(ks, k)
	}
	sort.Strings(ks)
	if keys[havocAllKey] {
		// a callee in the loop may change the whole heap
		except := map[string]bool{}
		for _, k := range ks {
			if strings.HasPrefix(k, "!") {
				except[k[1:]] = true
			}
		}
		fx.havocAll(st, except, fmt.Sprintf("L%d", lp.Ordinal))
	}
	for _, k := range ks {
		if k == havocAllKey || strings.HasPrefix(k, "!") {
			continue
		}
		if strings.HasPrefix(k, "map:") {
			for hk, srt := range heapSorts {
				if strings.HasPrefix(hk, "M") && strings.Contains(hk, k[4:]) {
					st.heapSet(hk, Fresh(fmt.Sprintf("L%d_%s", lp.Ordinal, hk), srt))
				}
			}
			continue
		}
		srt := heapSorts[k]
		if srt == nil {
			// first touched inside the loop: materialise it now so that the head state is havocked too
			srt = keySortHint[k]
			if srt == nil {
				if k == allocKey {
					srt = allocSort
				} else {
					fail("%s: loop %d modifies heap key %s of unknown sort", fx.fn, lp.Ordinal, k)
				}
			}
			initialHeap(k, srt)
		}
		if lf := fx.loopFrames[lp]; lf != nil && fx.havocTargets(lp, lf, k, st) {
			continue // declared loop frame: only the named rows/cells are havocked
		}
		old := st.heapGet(k, srt)
		nw := Fresh(fmt.Sprintf("L%d_%s", lp.Ordinal, k), srt)
		st.heapSet(k, nw)
		if k == allocKey {
			// allocation only grows
			r := Fresh("r", IntSort)
			fx.ex.assume(st, Forall([]*Term{r}, Implies(Select(old, r), Select(nw, r)), Select(old, r)))
		}
	}
}

func (fx *fnExec) keysOfObject(t types.Type, keys map[string]bool) {
	switch u := t.Underlying().(type) {
	case *types.Struct:
		for i := 0; i < u.NumFields(); i++ {
			ft := u.Field(i).Type()
			if isStruct(ft) {
				fx.keysOfObject(ft, keys)
			} else if at, ok := ft.Underlying().(*types.Array); ok {
				fx.keysOfElem(at.Elem(), keys)
			} else {
				for k, srt := range layout(ft) {
					keys[fldKey(structName(t), i, k)] = true
					keySortHint[fldKey(structName(t), i, k)] = ArraySort(IntSort, srt)
				}
			}
		}
	case *types.Array:
		fx.keysOfElem(u.Elem(), keys)
	default:
		for k, srt := range layout(t) {
			keys[cellKey(t, k)] = true
			keySortHint[cellKey(t, k)] = ArraySort(IntSort, srt)
		}
	}
}

// keySortHint remembers the sort of heap keys named by mod-set computations, so that keys that are
// first touched inside a loop can still be havocked at the loop head.
var keySortHint = map[string]*Sort{}

func (fx *fnExec) keysOfElem(t types.Type, keys map[string]bool) {
	for k, srt := range layout(t) {
		keys[elemKey(t, k)] = true
		keySortHint[elemKey(t, k)] = ArraySort(IntSort, ArraySort(BV64, srt))
	}
}

// modTargets computes which local or heap keys a store through addr may modify.
func (fx *fnExec) modTargets(addr ssa.Value, allocs map[*ssa.Alloc]bool, keys map[string]bool) {
	switch a := addr.(type) {
	case *ssa.Alloc:
		if !isHeapAlloc(a) {
			allocs[a] = true
		} else {
			fx.keysOfObject(a.Type().(*types.Pointer).Elem(), keys)
		}
	case *ssa.FieldAddr:
		// find root
		root := a.X
		pt := root.Type().Underlying().(*types.Pointer).Elem()
		if r, ok := root.(*ssa.Alloc); ok && !isHeapAlloc(r) {
			allocs[r] = true
			return
		}
		if inner, ok := root.(*ssa.FieldAddr); ok {
			if ra := rootAlloc(inner); ra != nil && !isHeapAlloc(ra) {
				allocs[ra] = true
				return
			}
		}
		if inner, ok := root.(*ssa.IndexAddr); ok {
			if ra := rootAllocV(inner); ra != nil && !isHeapAlloc(ra) {
				allocs[ra] = true
				return
			}
			// field of a slice element
			if _, isSlice := inner.X.Type().Underlying().(*types.Slice); isSlice {
				fx.keysOfElem(pt, keys)
				return
			}
		}
		st := pt.Underlying().(*types.Struct)
		ft := st.Field(a.Field).Type()
		if isStruct(ft) {
			fx.keysOfObject(ft, keys)
		} else if at, ok := ft.Underlying().(*types.Array); ok {
			fx.keysOfElem(at.Elem(), keys)
		} else {
			for k, srt := range layout(ft) {
				keys[fldKey(structName(pt), a.Field, k)] = true
				keySortHint[fldKey(structName(pt), a.Field, k)] = ArraySort(IntSort, srt)
			}
		}
		// the struct may itself be an element of a slice
		fx.keysOfElemMaybe(root, keys)
	case *ssa.IndexAddr:
		if ra := rootAllocV(a); ra != nil && !isHeapAlloc(ra) {
			allocs[ra] = true
			return
		}
		switch xt := a.X.Type().Underlying().(type) {
		case *types.Slice:
			fx.keysOfElem(xt.Elem(), keys)
		case *types.Pointer:
			at := xt.Elem().Underlying().(*types.Array)
			fx.keysOfElem(at.Elem(), keys)
		}
	case *ssa.Global:
		for k, srt := range layout(a.Type().(*types.Pointer).Elem()) {
			keys[globKey(a, k)] = true
			keySortHint[globKey(a, k)] = srt
		}
	default:
		// store through a pointer value (parameter, loaded pointer)
		pt, ok := addr.Type().Underlying().(*types.Pointer)
		if ok {
			fx.keysOfObject(pt.Elem(), keys)
		}
	}
}

func (fx *fnExec) keysOfElemMaybe(root ssa.Value, keys map[string]bool) {}

func rootAlloc(fa *ssa.FieldAddr) *ssa.Alloc {
	switch x := fa.X.(type) {
	case *ssa.Alloc:
		return x
	case *ssa.FieldAddr:
		return rootAlloc(x)
	case *ssa.IndexAddr:
		return rootAllocV(x)
	}
	return nil
}

func rootAllocV(ia *ssa.IndexAddr) *ssa.Alloc {
	switch x := ia.X.(type) {
	case *ssa.Alloc:
		return x
	case *ssa.FieldAddr:
		return rootAlloc(x)
	case *ssa.IndexAddr:
		return rootAllocV(x)
	}
	return nil
}

// ---- loop unrolling ----

func (fx *fnExec) unrollLoop(lp *Loop, spec *LoopSpec, outer []*ssa.BasicBlock) {
	body := fx.loopBlocksOrdered(lp, outer)
	max := 300
	annotated := false
	if spec != nil && spec.Unroll > 0 {
		max = spec.Unroll
		annotated = true
	}
	if fx.ex.Bounded && !annotated {
		max = fx.ex.BoundK
		annotated = true
	}
	fx.unrolling[lp] = true
	for iter := 0; ; iter++ {
		for _, b := range body {
			fx.done[b] = false
		}
		// snapshot exit-edge bookkeeping: count symbolic exits this iteration
		exitBefore := fx.countExitEdges(lp)
		fx.execBlockFromIncoming(lp.Header)
		fx.runRegion(body[1:], lp)
		back := fx.incoming[lp.Header]
		alive := false
		for _, e := range back {
			if !e.cond.IsFalse() {
				alive = true
			}
		}
		if !alive {
			delete(fx.incoming, lp.Header)
			break
		}
		exitAfter := fx.countExitEdges(lp)
		if !annotated && exitAfter > exitBefore {
			fail("%s: loop %d (%s) has a symbolic exit condition and no invariant/unroll annotation", fx.fn, lp.Ordinal, fx.ex.L.posStr(lp.Pos))
		}
		if iter+1 >= max {
			// unwinding obligation: the back edge is unreachable
			st, err := mergeStates(back)
			if err != nil {
				fail("%v", err)
			}
			delete(fx.incoming, lp.Header)
			if fx.ex.Bounded {
				// bounded mode: assume the loop has finished (unwinding assumption)
				fx.ex.Dropped[fmt.Sprintf("bounded: %s loop %d cut after %d iterations (unwinding assumption)", fx.prefix, lp.Ordinal, max)] = true
			} else {
				fx.oblige(fmt.Sprintf("unwind.%d", lp.Ordinal), "unwind", st, False, lp.Pos, fmt.Sprintf("loop finishes within %d iterations", max))
			}
			break
		}
	}
	for _, b := range body {
		fx.done[b] = true
	}
	fx.unrolling[lp] = false
}

func (fx *fnExec) countExitEdges(lp *Loop) int {
	n := 0
	for b, ins := range fx.incoming {
		if lp.Blocks[b] {
			continue
		}
		for _, e := range ins {
			if !e.cond.IsFalse() {
				n++
			}
		}
	}
	n += len(fx.rets)
	return n
}

// ---- obligations ----

func (fx *fnExec) oblige(name, kind string, st *State, goal *Term, pos token.Pos, src string) {
	ex := fx.ex
	if st.Reach.IsFalse() || ex.specDepth > 0 {
		return
	}
	partial := ex.Partial[kind] || ex.Partial[kind+"."+src]
	for k := range ex.Partial {
		// `partial pre:sub`: precondition obligations whose name mentions "sub"
		if strings.HasPrefix(k, kind+":") && strings.Contains(name, k[len(kind)+1:]) {
			partial = true
		}
		// `partial nopanic.explicit.2`: one obligation (or a family, by name prefix) of this unit
		if name == k || strings.HasPrefix(name, k+".") {
			partial = true
		}
	}
	if partial {
		// partial contract: this kind of obligation is assumed, not checked (listed in the evidence)
		if ex.Partial[kind] {
			ex.Dropped["partial: "+kind+" obligations of "+ex.Unit+" are assumed, not checked"] = true
		} else {
			ex.Dropped["partial: obligation "+name+" ("+src+") of "+ex.Unit+" is assumed, not checked"] = true
		}
		if kind == "nopanic" || kind == "pre" || kind == "assertcall" {
			ex.assume(st, goal)
		}
		return
	}
	full := fx.prefix + "#" + name
	ex.oblNames[full]++
	if n := ex.oblNames[full]; n > 1 {
		full = fmt.Sprintf("%s~%d", full, n)
	}
	o := &Obl{Name: full, Kind: kind, Unit: ex.Unit, Assume: ex.Assume[:len(ex.Assume):len(ex.Assume)], Reach: st.Reach, Goal: goal,
		Pos: ex.L.posStr(pos), Src: src, Bounded: ex.Bounded, Inputs: ex.Inputs}
	if goal.IsTrue() {
		o.Trivial = true
	}
	if ex.UnitTimeout > 0 {
		o.Secs = ex.UnitTimeout
	}
	ex.Obls = append(ex.Obls, o)
	if kind == "nopanic" || kind == "pre" || kind == "assertcall" {
		// continue under the assumption that the check passed (failures do not cascade)
		ex.assume(st, goal)
	}
}

func (fx *fnExec) nopanic(which string, st *State, cond *Term, pos token.Pos) {
	fx.callCount["np:"+which]++
	fx.oblige(fmt.Sprintf("nopanic.%s.%d", which, fx.callCount["np:"+which]), "nopanic", st, cond, pos, which)
}

// ---- values ----

func (fx *fnExec) value(v ssa.Value, st *State) Val {
	switch v := v.(type) {
	case *ssa.Const:
		return constVal(v.Type(), v.Value)
	case *ssa.Global:
		return Val{T: v.Type(), Ptr: &MetaPtr{Kind: PGlobal, Global: v, Root: v.Type().(*types.Pointer).Elem()}}
	case *ssa.Function:
		return Val{T: v.Type(), Clo: &Closure{Fn: v}, C: []*Term{fx.ex.funcID(v)}}
	case *ssa.Builtin:
		fail("builtin %s used as value", v.Name())
	}
	if r, ok := st.Regs[v]; ok {
		return r
	}
	fail("%s: no value for %s (%T) = %s", fx.fn, v.Name(), v, v)
	return Val{}
}

func (ex *Exec) funcID(fn *ssa.Function) *Term {
	return IntC(int64(1000000 + ex.tagOf("func:"+fn.String())))
}

func (ex *Exec) tagOf(name string) int {
	if t, ok := ex.tags[name]; ok {
		return t
	}
	t := len(ex.tags) + 1
	ex.tags[name] = t
	return t
}

func (ex *Exec) typeTag(t types.Type) *Term {
	tag := ex.tagOf(typeName(t))
	if ex.tagType == nil {
		ex.tagType = map[int]types.Type{}
	}
	if _, ok := ex.tagType[tag]; !ok {
		ex.tagType[tag] = t
	}
	return IntC(int64(tag))
}

func toBV64(v Val) *Term {
	t := v.S()
	if t.Sort.Kind != KBV {
		panic("toBV64: not a bit-vector")
	}
	if t.Sort.W == 64 {
		return t
	}
	if t.Sort.W > 64 {
		return Extract(63, 0, t)
	}
	if isSigned(v.T) {
		return SignExt(t, 64)
	}
	return ZeroExt(t, 64)
}

// ---- pointers and memory ----

var ptagUF = DeclUF("$ptag", IntSort, IntSort)

func (ex *Exec) emb(sname string, field int, ref *Term) *Term {
	u := DeclUF(fmt.Sprintf("$emb:%s.%d", sname, field), IntSort, IntSort)
	inv := DeclUF(fmt.Sprintf("$embinv:%s.%d", sname, field), IntSort, IntSort)
	t := App(u, ref)
	if !ex.embSeen[t] {
		ex.embSeen[t] = true
		tag := IntC(int64(ex.tagOf(fmt.Sprintf("emb:%s.%d", sname, field))))
		ex.Assume = append(ex.Assume, And(Eq(App(inv, t), ref), Eq(App(ptagUF, t), tag), IntLt(IntC(0), t)))
		// a struct/array embedded by value in an object that existed at entry existed at entry
		// (needed where a loop frame keeps "objects allocated before the loop" unchanged)
		a0 := initialHeap(allocKey, allocSort)
		ex.Assume = append(ex.Assume, Implies(Select(a0, ref), Select(a0, t)))
	}
	return t
}

func (fx *fnExec) ptrOf(v Val, st *State, pos token.Pos, check bool) *MetaPtr {
	if v.Ptr != nil {
		return v.Ptr
	}
	pt, ok := v.T.Underlying().(*types.Pointer)
	if !ok {
		fail("%s: ptrOf on non-pointer %v", fx.fn, v.T)
	}
	ref := v.S()
	if check {
		fx.nopanic("nil", st, Neq(ref, IntC(0)), pos)
	}
	return fx.ex.objPtr(pt.Elem(), ref)
}

const (
	PObj PtrKind = iota + 100
	PArr
)

func (ex *Exec) objPtr(elem types.Type, ref *Term) *MetaPtr {
	if mp := ex.handlePtr(elem, ref); mp != nil {
		return mp
	}
	switch u := elem.Underlying().(type) {
	case *types.Struct:
		return &MetaPtr{Kind: PObj, Ref: ref, Struct: u, SName: structName(elem), Root: elem}
	case *types.Array:
		return &MetaPtr{Kind: PArr, Ref: ref, Root: elem}
	}
	return &MetaPtr{Kind: PCell, Ref: ref, Root: elem}
}

func (mp *MetaPtr) extend(s Step) *MetaPtr {
	n := *mp
	n.Path = append(append([]Step{}, mp.Path...), s)
	return &n
}

func (ex *Exec) loadObj(st *State, t types.Type, ref *Term) Val {
	switch u := t.Underlying().(type) {
	case *types.Struct:
		var c []*Term
		sn := structName(t)
		for i := 0; i < u.NumFields(); i++ {
			ft := u.Field(i).Type()
			if isStruct(ft) || isArray(ft) {
				c = append(c, ex.loadObj(st, ft, ex.emb(sn, i, ref)).C...)
			} else {
				for k, srt := range layout(ft) {
					c = append(c, Select(st.heapGet(fldKey(sn, i, k), ArraySort(IntSort, srt)), ref))
				}
			}
		}
		return Val{T: t, C: c}
	case *types.Array:
		var c []*Term
		for k, srt := range layout(u.Elem()) {
			c = append(c, Select(st.heapGet(elemKey(u.Elem(), k), ArraySort(IntSort, ArraySort(BV64, srt))), ref))
		}
		return Val{T: t, C: c}
	}
	var c []*Term
	for k, srt := range layout(t) {
		c = append(c, Select(st.heapGet(cellKey(t, k), ArraySort(IntSort, srt)), ref))
	}
	return Val{T: t, C: c}
}

func isArray(t types.Type) bool {
	_, ok := t.Underlying().(*types.Array)
	return ok
}

func (ex *Exec) storeObj(st *State, t types.Type, ref *Term, v Val) {
	switch u := t.Underlying().(type) {
	case *types.Struct:
		sn := structName(t)
		for i := 0; i < u.NumFields(); i++ {
			ft := u.Field(i).Type()
			fv := fieldOf(Val{T: t, C: v.C}, i)
			if isStruct(ft) || isArray(ft) {
				ex.storeObj(st, ft, ex.emb(sn, i, ref), fv)
			} else {
				for k, srt := range layout(ft) {
					key := fldKey(sn, i, k)
					st.heapSet(key, Store(st.heapGet(key, ArraySort(IntSort, srt)), ref, fv.C[k]))
				}
			}
		}
		return
	case *types.Array:
		for k, srt := range layout(u.Elem()) {
			key := elemKey(u.Elem(), k)
			st.heapSet(key, Store(st.heapGet(key, ArraySort(IntSort, ArraySort(BV64, srt))), ref, v.C[k]))
		}
		return
	}
	for k, srt := range layout(t) {
		key := cellKey(t, k)
		st.heapSet(key, Store(st.heapGet(key, ArraySort(IntSort, srt)), ref, v.C[k]))
	}
}

func (ex *Exec) loadElem(st *State, t types.Type, ref, idx *Term) Val {
	var c []*Term
	for k, srt := range layout(t) {
		c = append(c, Select(Select(st.heapGet(elemKey(t, k), ArraySort(IntSort, ArraySort(BV64, srt))), ref), idx))
	}
	return Val{T: t, C: c}
}

func (ex *Exec) storeElem(st *State, t types.Type, ref, idx *Term, v Val) {
	for k, srt := range layout(t) {
		key := elemKey(t, k)
		h := st.heapGet(key, ArraySort(IntSort, ArraySort(BV64, srt)))
		st.heapSet(key, Store(h, ref, Store(Select(h, ref), idx, v.C[k])))
	}
}

// resolve turns PObj+path into a concrete location (descending through embedded structs/arrays).
func (ex *Exec) resolve(mp *MetaPtr) *MetaPtr {
	for mp.Kind == PObj && len(mp.Path) > 0 {
		s := mp.Path[0]
		if s.Field < 0 {
			fail("index step on struct object")
		}
		ft := mp.Struct.Field(s.Field).Type()
		if isStruct(ft) || isArray(ft) {
			n := ex.objPtr(ft, ex.emb(mp.SName, s.Field, mp.Ref))
			n.Path = mp.Path[1:]
			mp = n
			continue
		}
		n := &MetaPtr{Kind: PField, Ref: mp.Ref, Struct: mp.Struct, SName: mp.SName, Field: s.Field, Root: ft, Path: mp.Path[1:]}
		return n
	}
	if mp.Kind == PArr && len(mp.Path) > 0 {
		s := mp.Path[0]
		if s.Field >= 0 {
			fail("field step on array object")
		}
		at := mp.Root.Underlying().(*types.Array)
		n := &MetaPtr{Kind: PElem, Ref: mp.Ref, Idx: s.Index, Root: at.Elem(), Path: mp.Path[1:]}
		return n
	}
	return mp
}

func (fx *fnExec) globalVal(st *State, g *ssa.Global) Val {
	ex := fx.ex
	t := g.Type().(*types.Pointer).Elem()
	if cv := ex.constGlobal(g); cv != nil {
		// honour later stores in this state (none for constant globals)
		return *cv
	}
	var c []*Term
	for k, srt := range layout(t) {
		c = append(c, st.heapGet(globKey(g, k), srt))
	}
	return Val{T: t, C: c}
}

func (fx *fnExec) load(st *State, mp *MetaPtr) Val {
	ex := fx.ex
	mp = ex.resolve(mp)
	switch mp.Kind {
	case PMulti:
		return fx.loadMulti(st, mp)
	case PNil:
		return navigate(zeroVal(mp.Root), mp.Path)
	case PLocal:
		v, ok := st.Allocs[mp.Alloc]
		if !ok {
			fail("%s: local %s not initialised in this state", fx.fn, mp.Alloc.Comment)
		}
		return navigate(v, mp.Path)
	case PGlobal:
		return navigate(fx.globalVal(st, mp.Global), mp.Path)
	case PObj:
		return ex.loadObj(st, mp.Root, mp.Ref)
	case PArr:
		return ex.loadObj(st, mp.Root, mp.Ref)
	case PField:
		var c []*Term
		for k, srt := range layout(mp.Root) {
			c = append(c, Select(st.heapGet(fldKey(mp.SName, mp.Field, k), ArraySort(IntSort, srt)), mp.Ref))
		}
		return navigate(Val{T: mp.Root, C: c}, mp.Path)
	case PCell:
		return navigate(ex.loadObj(st, mp.Root, mp.Ref), mp.Path)
	case PElem:
		return navigate(ex.loadElem(st, mp.Root, mp.Ref, mp.Idx), mp.Path)
	}
	fail("load: bad pointer kind")
	return Val{}
}

func (fx *fnExec) store(st *State, mp *MetaPtr, v Val) {
	ex := fx.ex
	mp = ex.resolve(mp)
	switch mp.Kind {
	case PMulti:
		fx.storeMulti(st, mp, v)
		return
	case PNil:
		return
	case PLocal:
		old, ok := st.Allocs[mp.Alloc]
		if !ok {
			old = zeroVal(mp.Alloc.Type().(*types.Pointer).Elem())
		}
		st.Allocs[mp.Alloc] = update(old, mp.Path, v)
	case PGlobal:
		if ex.constGlobal(mp.Global) != nil {
			fail("%s: store to global %s that was classified constant", fx.fn, mp.Global.Name())
		}
		old := fx.globalVal(st, mp.Global)
		nv := update(old, mp.Path, v)
		for k := range nv.C {
			st.heapSet(globKey(mp.Global, k), nv.C[k])
		}
	case PObj, PArr:
		ex.storeObj(st, mp.Root, mp.Ref, v)
	case PField:
		var c []*Term
		for k, srt := range layout(mp.Root) {
			c = append(c, Select(st.heapGet(fldKey(mp.SName, mp.Field, k), ArraySort(IntSort, srt)), mp.Ref))
		}
		nv := update(Val{T: mp.Root, C: c}, mp.Path, v)
		for k, srt := range layout(mp.Root) {
			key := fldKey(mp.SName, mp.Field, k)
			st.heapSet(key, Store(st.heapGet(key, ArraySort(IntSort, srt)), mp.Ref, nv.C[k]))
		}
	case PCell:
		old := ex.loadObj(st, mp.Root, mp.Ref)
		ex.storeObj(st, mp.Root, mp.Ref, update(old, mp.Path, v))
	case PElem:
		if len(mp.Path) == 0 {
			ex.storeElem(st, mp.Root, mp.Ref, mp.Idx, v)
		} else {
			old := ex.loadElem(st, mp.Root, mp.Ref, mp.Idx)
			ex.storeElem(st, mp.Root, mp.Ref, mp.Idx, update(old, mp.Path, v))
		}
	default:
		fail("store: bad pointer kind")
	}
}

// materialize turns a meta-level pointer into a first-class reference value where possible.
func (fx *fnExec) materialize(v Val) Val {
	if v.Ptr == nil || len(v.C) == 1 {
		return v
	}
	mp := fx.ex.resolve(v.Ptr)
	switch mp.Kind {
	case PObj, PArr, PCell:
		if len(mp.Path) == 0 {
			return Val{T: v.T, C: []*Term{mp.Ref}}
		}
	case PElem:
		if len(mp.Path) == 0 && isStruct(mp.Root) {
			return Val{T: v.T, C: []*Term{fx.ex.elemHandle(mp)}}
		}
	}
	fail("%s: cannot turn interior pointer (kind %d, type %v) into a first-class value; mark the callee inline or restructure the contract", fx.fn, mp.Kind, v.T)
	return Val{}
}

// newObject allocates a fresh heap object of type t and returns its reference.
func (ex *Exec) newRef(st *State, hint string) *Term {
	r := Fresh("ref_"+hint, IntSort)
	a := st.alloc()
	ex.assume(st, And(IntLt(IntC(0), r), Not(Select(a, r)), Eq(App(ptagUF, r), IntC(0))))
	st.heapSet(allocKey, Store(a, r, True))
	return r
}

func (ex *Exec) newObject(st *State, t types.Type, hint string) *Term {
	before := st.alloc()
	r := ex.newRef(st, hint)
	ex.allocEmbedded(st, t, r, before, 0)
	ex.storeObj(st, t, r, zeroVal(t))
	return r
}

// allocEmbedded: the locations of structs and arrays embedded by value in a freshly allocated
// object are fresh too: not allocated before, allocated now (so that stores into them are not
// mistaken for writes to objects that existed at entry).
func (ex *Exec) allocEmbedded(st *State, t types.Type, ref *Term, before *Term, depth int) {
	u, ok := t.Underlying().(*types.Struct)
	if !ok || depth > 4 {
		return
	}
	sn := structName(t)
	for i := 0; i < u.NumFields(); i++ {
		ft := u.Field(i).Type()
		if isStruct(ft) || isArray(ft) {
			e := ex.emb(sn, i, ref)
			ex.assume(st, Not(Select(before, e)))
			st.heapSet(allocKey, Store(st.alloc(), e, True))
			ex.allocEmbedded(st, ft, e, before, depth+1)
		}
	}
}

// assumeHeapWF assumes pointers inside v are nil or allocated (no dangling pointers in Go).
func (ex *Exec) assumeHeapWF(st *State, v Val) {
	var refs []*Term
	var walk func(v Val)
	walk = func(v Val) {
		if v.T == nil || len(v.C) == 0 {
			return
		}
		switch u := v.T.Underlying().(type) {
		case *types.Pointer, *types.Map:
			refs = append(refs, v.C[0])
		case *types.Slice:
			refs = append(refs, v.C[0])
		case *types.Struct:
			for i := 0; i < u.NumFields(); i++ {
				walk(fieldOf(v, i))
			}
		}
	}
	walk(v)
	a := st.alloc()
	for _, r := range refs {
		if r.IsConst() {
			continue
		}
		ex.assume(st, Or(Eq(r, IntC(0)), Select(a, r)))
		// a pointer read from a part of the heap that is still the entry heap, out of an object that
		// existed at entry, points to an object that existed at entry (the entry heap is closed)
		a0 := initialHeap(allocKey, allocSort)
		if a0 != a {
			var leaves func(t *Term, guard *Term, depth int)
			leaves = func(t *Term, guard *Term, depth int) {
				if t.Op == "ite" && depth < 4 {
					leaves(t.Args[1], And(guard, t.Args[0]), depth+1)
					leaves(t.Args[2], And(guard, Not(t.Args[0])), depth+1)
					return
				}
				if t.Op == "select" && t.Args[0].Op == "store" && depth < 4 {
					// select(store(A, i, v), j): A[j] when i != j, v otherwise
					sto := t.Args[0]
					leaves(Select(sto.Args[0], t.Args[1]), And(guard, Neq(sto.Args[1], t.Args[1])), depth+1)
					leaves(sto.Args[2], And(guard, Eq(sto.Args[1], t.Args[1])), depth+1)
					return
				}
				obj, ok := entryHeapRead(t)
				if !ok {
					return
				}
				// an embedded struct/array lives and dies with its enclosing object
				for obj.Op == "app" && strings.HasPrefix(obj.Name, "$emb:") {
					obj = obj.Args[0]
				}
				ex.assume(st, Implies(And(guard, Select(a0, obj)), Or(Eq(t, IntC(0)), Select(a0, t))))
			}
			leaves(r, True, 0)
		}
	}
}

// entryHeapRead recognises select(H0:key, obj) and select(select(H0:key, obj), idx).
func entryHeapRead(r *Term) (*Term, bool) {
	if r.Op != "select" {
		return nil, false
	}
	arr := r.Args[0]
	if arr.Op == "var" && strings.HasPrefix(arr.Name, "H0:") {
		return r.Args[1], true
	}
	if arr.Op == "select" && arr.Args[0].Op == "var" && strings.HasPrefix(arr.Args[0].Name, "H0:") {
		return arr.Args[1], true
	}
	return nil, false
}

package main

import (
	"fmt"
	"strings"

	"golang.org/x/tools/go/ssa"
)

// loopMayCall: some call instruction inside the loop (of the function itself; call-site clauses do
// not see calls made by inlined callees) can match the callee name of a call-site clause.
func (fx *fnExec) loopMayCall(lp *Loop, callee string) bool {
	if h := strings.Index(callee, "#"); h >= 0 {
		callee = callee[:h]
	}
	for b := range lp.Blocks {
		for _, in := range b.Instrs {
			ci, ok := in.(ssa.CallInstruction)
			if !ok {
				continue
			}
			cc := ci.Common()
			if cc.IsInvoke() {
				if cc.Method.Name() == callee {
					return true
				}
				continue
			}
			if sc := cc.StaticCallee(); sc != nil {
				if sc.Name() == callee || funcKey(sc) == callee || shortPkg(sc)+"."+sc.Name() == callee {
					return true
				}
				continue
			}
			if _, isBuiltin := cc.Value.(*ssa.Builtin); isBuiltin {
				continue
			}
			if dynCalleeName(cc.Value) == callee {
				return true
			}
		}
	}
	return false
}

// ghostAdd: ghost counters are specification-level integers, not machine state: an addition of a
// non-negative amount does not wrap around (assumed at every update; 64-bit vectors are only their
// representation).
func (fx *fnExec) ghostAdd(st *State, cur, dt *Term) *Term {
	n := BVAdd(cur, dt)
	fx.ex.assume(st, Implies(BVSle(BVI(0, 64), dt), BVSle(cur, n)))
	return n
}

// allocOrderKey identifies an Alloc uniquely and independently of map iteration order: comment,
// position, enclosing function, block and index in the block.
func allocOrderKey(a *ssa.Alloc) string {
	idx := -1
	if b := a.Block(); b != nil {
		for i, in := range b.Instrs {
			if in == ssa.Instruction(a) {
				idx = i
				break
			}
		}
		fn := ""
		if a.Parent() != nil {
			fn = a.Parent().String()
		}
		return fmt.Sprintf("%s@%d|%s|%06d|%06d", a.Comment, a.Pos(), fn, b.Index, idx)
	}
	return fmt.Sprintf("%s@%d|?|%p", a.Comment, a.Pos(), a)
}

package main

import (
	"fmt"
	"go/constant"
	"go/types"
	"os"
	"sort"
	"strconv"

	"golang.org/x/tools/go/ssa"
)

// useBody: callees (by contract key or name) whose bodies the current unit executes
// instead of applying their contracts (clause `usebody`).
func (ex *Exec) useBody(callee *ssa.Function) bool {
	for _, n := range ex.UseBodyOf {
		if n == callee.Name() || n == funcKey(callee) {
			return callee.Blocks != nil
		}
	}
	return false
}

type declConst struct {
	Name string
	Val  constant.Value
}

// declaredConsts returns every package-level constant whose type is exactly t, sorted by name.
func declaredConsts(pkg *types.Package, t types.Type) []declConst {
	var out []declConst
	sc := pkg.Scope()
	for _, n := range sc.Names() {
		c, ok := sc.Lookup(n).(*types.Const)
		if !ok || !types.Identical(c.Type(), t) {
			continue
		}
		out = append(out, declConst{n, c.Val()})
	}
	sort.Slice(out, func(i, j int) bool { return out[i].Name < out[j].Name })
	return out
}

// isDeclared builds the disjunction "v equals one of the declared constants of its type".
func isDeclared(v Val) *Term {
	named, ok := v.T.(*types.Named)
	if !ok || named.Obj().Pkg() == nil {
		fail("isdeclared: %v is not a named type", v.T)
	}
	cs := declaredConsts(named.Obj().Pkg(), v.T)
	if len(cs) == 0 {
		fail("isdeclared: no constants of type %v", v.T)
	}
	seen := map[*Term]bool{}
	var ds []*Term
	for _, c := range cs {
		cv := constVal(v.T, c.Val)
		if len(cv.C) != 1 {
			fail("isdeclared: non-scalar constant")
		}
		if !seen[cv.C[0]] {
			seen[cv.C[0]] = true
			ds = append(ds, Eq(v.C[0], cv.C[0]))
		}
	}
	return Or(ds...)
}

// verifyUnit generates the obligations of one unit. A lemma with an `each p` clause is
// instantiated once for every declared constant of p's type (exhaustive over that finite set,
// read from the current sources); every instance runs with p fixed to the constant.
func verifyUnit(l *Loader, pkgPath, key string) *UnitResult {
	fn := l.findFunc(pkgPath, key)
	if fn == nil {
		return verifyUnit1(l, pkgPath, key, nil, "")
	}
	c := l.contractFor(fn)
	if c == nil || len(c.Each) == 0 {
		return verifyUnit1(l, pkgPath, key, nil, "")
	}
	if len(c.Each) != 1 {
		return &UnitResult{Name: pkgPath + ":" + key, Err: "each: exactly one parameter is supported"}
	}
	pname := c.Each[0]
	var ptype types.Type
	for i, p := range fn.Params {
		n := p.Name()
		if i < len(c.Params) {
			n = c.Params[i]
		}
		if n == pname {
			ptype = p.Type()
		}
	}
	named, ok := ptype.(*types.Named)
	if !ok || named.Obj().Pkg() == nil {
		return &UnitResult{Name: pkgPath + ":" + key, Err: "each: parameter " + pname + " has no named type"}
	}
	cs := declaredConsts(named.Obj().Pkg(), ptype)
	if len(cs) == 0 {
		return &UnitResult{Name: pkgPath + ":" + key, Err: "each: no declared constants of type " + ptype.String()}
	}
	if lim := os.Getenv("GOVC_EACH_LIMIT"); lim != "" {
		if n, err := strconv.Atoi(lim); err == nil && n < len(cs) {
			cs = cs[:n]
		}
	}
	var total *UnitResult
	for _, dc := range cs {
		fixed := map[string]Val{pname: constVal(ptype, dc.Val)}
		r := verifyUnit1(l, pkgPath, key, fixed, fmt.Sprintf("[%s=%s]", pname, dc.Name))
		if r.Err != "" {
			r.Err = fmt.Sprintf("instance %s=%s: %s", pname, dc.Name, r.Err)
			return r
		}
		for _, o := range r.Obls {
			o.FixedArgs = map[string]string{pname: dc.Name}
		}
		if total == nil {
			total = r
			continue
		}
		total.Obls = append(total.Obls, r.Obls...)
		for k := range r.Exec.Dropped {
			total.Exec.Dropped[k] = true
		}
		for k := range r.Exec.TrustedUsed {
			total.Exec.TrustedUsed[k] = true
		}
		for k := range r.Exec.Inlined {
			total.Exec.Inlined[k] = true
		}
	}
	total.Instances = len(cs)
	return total
}

package main

import "sort"

// splitOnHeapIte splits a (merged) state into the path states it was merged from, as far as the
// heap shows them: when a heap array is ite(c, a, b) at the top, the state is replaced by the two
// states (reach && c, every top-level ite(c, x, y) -> x) and (reach && !c, ... -> y). Quantified
// contract facts mention the un-merged arrays, so the split states match their triggers.
func splitOnHeapIte(st *State, depth int) []*State {
	if depth == 0 {
		return []*State{st}
	}
	var keys []string
	for k := range st.Heap {
		keys = append(keys, k)
	}
	sort.Strings(keys)
	var c *Term
	for _, k := range keys {
		if t := st.Heap[k]; t.Op == "ite" {
			c = t.Args[0]
			break
		}
	}
	if c == nil {
		return []*State{st}
	}
	pick := func(t *Term, then bool) *Term {
		if t.Op == "ite" && t.Args[0] == c {
			if then {
				return t.Args[1]
			}
			return t.Args[2]
		}
		return t
	}
	mk := func(then bool) *State {
		n := st.clone()
		if then {
			n.Reach = And(st.Reach, c)
		} else {
			n.Reach = And(st.Reach, Not(c))
		}
		for k, t := range st.Heap {
			n.Heap[k] = pick(t, then)
		}
		for k, g := range st.Ghost {
			n.Ghost[k] = pick(g, then)
		}
		return n
	}
	var out []*State
	for _, s := range []*State{mk(true), mk(false)} {
		if s.Reach.IsFalse() {
			continue
		}
		out = append(out, splitOnHeapIte(s, depth-1)...)
	}
	return out
}

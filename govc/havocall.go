package main

import (
	"fmt"
	"go/types"

	"golang.org/x/tools/go/ssa"
)

// Whole-heap havoc: the effect of a callee abstracted by `havocs [except T.f, ...]`.
// Every heap key is forgotten except the named type-level fields; keys that were never touched in
// the current state are read as fresh per-epoch symbols afterwards, not as the initial heap.

const havocAllKey = "*all"

var epochCtr int

func newEpoch() string {
	epochCtr++
	return fmt.Sprintf("e%d", epochCtr)
}

var epochHeaps = map[string]*Term{}

func epochHeap(ep, key string, srt *Sort) *Term {
	k := ep + "|" + key
	if t, ok := epochHeaps[k]; ok {
		return t
	}
	t := Var("H@"+ep+"_"+key, srt)
	epochHeaps[k] = t
	return t
}

func (fx *fnExec) havocAll(st *State, except map[string]bool, hint string) {
	prot := fx.protectedCells(st)
	defer func() {
		for _, pc := range prot {
			fx.ex.storeObj(st, pc.t, pc.ref, pc.val)
		}
	}()
	for k := range except {
		if _, ok := st.Heap[k]; ok {
			continue
		}
		srt := heapSorts[k]
		if srt == nil {
			srt = keySortHint[k]
		}
		if srt != nil {
			st.Heap[k] = st.heapGet(k, srt) // pin the kept key at its current value
		}
	}
	oa := st.alloc()
	for k := range st.Heap {
		if except[k] {
			continue
		}
		delete(st.Heap, k)
	}
	st.Epoch = newEpoch()
	na := Fresh("alloc_after_"+hint, allocSort)
	r := Fresh("r", IntSort)
	fx.ex.assume(st, Forall([]*Term{r}, Implies(Select(oa, r), Select(na, r)), Select(na, r)))
	st.heapSet(allocKey, na)
	fx.ex.TrustedUsed["havocs: "+hint+" abstracted as changing the whole heap except its `havocs except` fields"] = true
}

// havocAllKeys records, in a loop's mod-set, a callee that may change the whole heap. The kept keys
// are the intersection over all such callees ("!key" entries).
func (ex *Exec) havocAllKeys(fx *fnExec, c *Contract, callee *ssa.Function, keys map[string]bool) {
	mine := map[string]bool{}
	for _, m := range c.HavocExcept {
		x := m.Expr
		if x.Kind != "select" || x.Args[0].Kind != "ident" || callee.Pkg == nil {
			continue
		}
		tn, ok := callee.Pkg.Pkg.Scope().Lookup(x.Args[0].Name).(*types.TypeName)
		if !ok || !isStruct(tn.Type()) {
			continue
		}
		t := tn.Type()
		path := embeddedPath(t, x.Name, 0)
		if len(path) != 1 {
			continue
		}
		ft := t.Underlying().(*types.Struct).Field(path[0]).Type()
		for k, srt := range layout(ft) {
			key := fldKey(structName(t), path[0], k)
			keySortHint[key] = ArraySort(IntSort, srt)
			mine["!"+key] = true
		}
	}
	if !keys[havocAllKey] {
		keys[havocAllKey] = true
		for k := range mine {
			keys[k] = true
		}
		return
	}
	for k := range keys {
		if len(k) > 0 && k[0] == '!' && !mine[k] {
			delete(keys, k)
		}
	}
}

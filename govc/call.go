package main

import (
	"fmt"
	"go/token"
	"go/types"
	"sort"
	"strings"

	"golang.org/x/tools/go/ssa"
)

func (fx *fnExec) call(in ssa.Instruction, cc *ssa.CallCommon, st *State) Val {
	pos := in.Pos()
	if ci, ok := in.(ssa.CallInstruction); ok {
		fx.curCall = ci
	}
	var rt types.Type
	if v, ok := in.(ssa.Value); ok {
		rt = v.Type()
	}
	if b, ok := cc.Value.(*ssa.Builtin); ok {
		return fx.builtin(b, cc, st, pos, rt)
	}
	var args []Val
	for _, a := range cc.Args {
		v := fx.value(a, st)
		args = append(args, v)
	}
	if cc.IsInvoke() {
		recv := fx.value(cc.Value, st)
		return fx.invoke(recv, cc.Method, args, st, pos, rt)
	}
	if callee := cc.StaticCallee(); callee != nil {
		var bindings []Val
		if mc, ok := cc.Value.(*ssa.MakeClosure); ok {
			for _, b := range mc.Bindings {
				bindings = append(bindings, fx.value(b, st))
			}
		}
		return fx.callStatic(callee, args, bindings, st, pos, rt)
	}
	// dynamic call through a function value
	fv := fx.value(cc.Value, st)
	if fv.Clo != nil {
		return fx.callStatic(fv.Clo.Fn, args, fv.Clo.Bindings, st, pos, rt)
	}
	if fv.Alts != nil {
		return fx.callAlts(fv, args, st, pos, rt)
	}
	dname := dynCalleeName(cc.Value)
	fx.dynCallHooks(dname, args, st, pos)
	if fx.c != nil {
		for _, tc := range fx.c.TrustCalls {
			if tc == dname {
				// trusted callback: no effect on memory visible to this unit (assumption, listed)
				fx.ex.TrustedUsed["callback "+dname+" in "+fx.prefix+" assumed not to modify the state under contract"] = true
				if rt == nil {
					return Val{}
				}
				if tup, ok := rt.(*types.Tuple); ok && tup.Len() == 0 {
					return Val{}
				}
				return fx.freshOf("cb", rt, st)
			}
		}
	}
	if fx.ex.HavocCallsC != nil {
		return fx.havocCall("dynamic call "+dname, nil, st, rt)
	}
	return fx.opaqueCall("dynamic call "+dname, nil, args, st, rt)
}

func (fx *fnExec) materializeArgs(args []Val) []Val {
	out := make([]Val, len(args))
	for i, a := range args {
		if a.Ptr != nil {
			a = fx.materialize(a)
		}
		out[i] = a
	}
	return out
}

func inRepo(fn *ssa.Function) bool {
	p := fn.Pkg
	if p == nil && fn.Origin() != nil {
		p = fn.Origin().Pkg
	}
	return p != nil && strings.HasPrefix(p.Pkg.Path(), modPath)
}

var inlinePkgs = map[string]bool{"encoding/binary": true, "math/bits": true, "internal/byteorder": true, "unicode/utf8": false}

func pkgPathOf(fn *ssa.Function) string {
	p := fn.Pkg
	if p == nil && fn.Origin() != nil {
		p = fn.Origin().Pkg
	}
	if p == nil {
		return ""
	}
	return p.Pkg.Path()
}

func hasLoops(fn *ssa.Function) bool {
	for _, b := range fn.Blocks {
		for _, s := range b.Succs {
			if s.Dominates(b) {
				return true
			}
		}
	}
	return false
}

func (fx *fnExec) callStatic0(callee *ssa.Function, args []Val, bindings []Val, st *State, pos token.Pos, rt types.Type) Val {
	ex := fx.ex
	name := callee.String()
	if noopFuncs[name] {
		return Val{}
	}
	if m, ok := stdModels[name]; ok {
		ex.TrustedUsed["model:"+name] = true
		return m(fx, args, st, pos, rt)
	}
	c := ex.L.contractFor(callee)
	if ex.HavocCallsC != nil && ex.AbstractNames[callee.Name()] && !(c != nil && c.Pure) {
		return fx.havocCall(name, callee, st, rt)
	}
	if c != nil && c.Pure && c.Recursive && callee.Blocks != nil {
		return fx.callRecursivePure(callee, c, fx.softMaterializeArgs(args), st)
	}
	if c != nil && c.Pure && callee.Blocks != nil {
		v, _ := ex.runFunc(callee, fx.softMaterializeArgs(args), nil, st.clone(), false, c)
		return v
	}
	if c != nil && !c.Inline && !c.Lemma && !fx.ex.useBody(callee) && !(inlineAll && !c.Trusted && callee.Blocks != nil && inRepo(callee)) {
		if c.Trusted {
			ex.TrustedUsed["contract:"+name] = true
		} else {
			ex.UnderContr[name] = true
		}
		return fx.applyContract(c, callee, fx.softMaterializeArgs(args), st, pos, rt)
	}
	if callee.Blocks == nil {
		if ex.HavocCallsC != nil {
			return fx.havocCall(name, callee, st, rt)
		}
		return fx.opaqueCall(name, callee, args, st, rt)
	}
	path := pkgPathOf(callee)
	inl := (c != nil && c.Inline) || inlinePkgs[path] || callee.Parent() != nil || bindings != nil || (inlineAll && inRepo(callee)) || ex.useBody(callee)
	if !inl && inRepo(callee) {
		// same-module callee without contract: inline when small and loop-free
		small := 40
		if ex.HavocCallsC != nil {
			small = havocInlineBlocks // orchestrating units: only trivial callees are executed, the rest is abstracted
		}
		if (!hasLoops(callee) && len(callee.Blocks) <= small) || ex.Bounded {
			inl = true // bounded units execute callee bodies (loops unrolled up to the bound)
		} else if ex.HavocCallsC != nil {
			return fx.havocCall(name, callee, st, rt)
		} else {
			fail("%s: callee %s has loops or is large and has no contract (add one, or mark it inline/opaque)", fx.fn, name)
		}
	}
	if inl {
		ex.Inlined[name] = true
		// interior pointers may be passed to inlined callees
		if c != nil && (ex.useBody(callee) || inlineAll) {
			// executing the body for evaluation/search: loops are unrolled, not cut at invariants
			tmp := *c
			tmp.Loops = map[int]*LoopSpec{}
			for k, ls := range c.Loops {
				if ls.Unroll > 0 {
					tmp.Loops[k] = &LoopSpec{Unroll: ls.Unroll} // complete-unrolling bounds stay in force
				}
			}
			c = &tmp
		}
		if ex.HavocCallsC != nil && c == nil && bindings == nil {
			// a callee whose body turns out to be outside the subset is abstracted instead
			if v, ok := fx.tryInline(callee, args, st); ok {
				return v
			}
			return fx.havocCall(name, callee, st, rt)
		}
		v, out := ex.runFunc(callee, args, bindings, st, false, c)
		*st = *out
		return v
	}
	if ex.HavocCallsC != nil {
		return fx.havocCall(name, callee, st, rt)
	}
	return fx.opaqueCall(name, callee, args, st, rt)
}

// opaqueCall: results are fresh; memory reachable one level from the arguments is havocked.
func (fx *fnExec) opaqueCall(name string, callee *ssa.Function, args []Val, st *State, rt types.Type) Val {
	ex := fx.ex
	ex.Dropped["opaque call: "+name+" (result unconstrained; argument-reachable memory havocked one level)"] = true
	for _, a := range args {
		if a.Ptr != nil {
			mp := ex.resolve(a.Ptr)
			nv := fx.freshOf("hav", mp.Root, st)
			if len(mp.Path) > 0 {
				nv = fx.freshOf("hav", navigate(fx.load(st, &MetaPtr{Kind: mp.Kind, Alloc: mp.Alloc, Global: mp.Global, Ref: mp.Ref, Struct: mp.Struct, SName: mp.SName, Field: mp.Field, Idx: mp.Idx, Root: mp.Root}), mp.Path).T, st)
			}
			fx.store(st, mp, nv)
			continue
		}
		if a.T == nil {
			continue
		}
		switch u := a.T.Underlying().(type) {
		case *types.Slice:
			for k, srt := range layout(u.Elem()) {
				key := elemKey(u.Elem(), k)
				rowS := ArraySort(BV64, srt)
				h := st.heapGet(key, ArraySort(IntSort, rowS))
				st.heapSet(key, Store(h, a.C[0], Fresh("hav_row", rowS)))
			}
		case *types.Pointer:
			if _, isStructPtr := u.Elem().Underlying().(*types.Struct); isStructPtr {
				nv := fx.freshOf("hav", u.Elem(), st)
				ex.storeObj(st, u.Elem(), a.C[0], nv)
			}
		}
	}
	if rt == nil {
		return Val{}
	}
	if tup, ok := rt.(*types.Tuple); ok && tup.Len() == 0 {
		return Val{}
	}
	return fx.freshOf("opq", rt, st)
}

// ---- contracts at call sites ----

func (fx *fnExec) applyContract(c *Contract, callee *ssa.Function, args []Val, st *State, pos token.Pos, rt types.Type) Val {
	ex := fx.ex
	name := shortPkg(callee) + "." + funcKey(callee)
	fx.callCount["call:"+name]++
	k := fx.callCount["call:"+name]
	env := &SpecEnv{ex: ex, fx: fx, st: st, old: st, vars: map[string]Val{}, fn: callee}
	bindParams(env, c, callee, args)
	for i, cl := range c.Requires {
		t := env.evalBool(cl)
		fx.oblige(fmt.Sprintf("pre.%s#%d.%d", name, k, i+1), "pre", st, t, pos, cl.Src)
	}
	old := st.clone()
	// havoc modifies
	env.old = old
	env.st = old
	for _, m := range c.Modifies {
		loc := env.evalLoc(m)
		fx.havocLoc(st, loc)
	}
	if c.HavocAll {
		except := map[string]bool{}
		for _, m := range c.HavocExcept {
			loc := env.evalLoc(m)
			if loc.Kind != "key" {
				fail("havocs except %s: only type-level fields T.f are supported", m.Src)
			}
			for _, k := range loc.Keys {
				except[k] = true
			}
		}
		fx.havocAll(st, except, funcKey(callee))
	}
	for _, m := range c.Preserves {
		loc := env.evalLoc(m)
		if loc.Kind != "ptr" {
			fail("preserves %s: only pointer locations are supported", m.Src)
		}
		fx.store(st, loc.Ptr, fx.load(old, loc.Ptr))
	}
	// results
	var res Val
	sig := callee.Signature.Results()
	var rvals []Val
	for i := 0; i < sig.Len(); i++ {
		rv := freshVal(fmt.Sprintf("%s_r%d", funcKey(callee), i), sig.At(i).Type())
		if c.Function {
			rv = fx.functionalResult(callee, args, i, rv, old)
		}
		ex.assumeAll(st, typeInv(rv, 0))
		rvals = append(rvals, rv)
	}
	if c.Allocates {
		// the callee may allocate: the allocation set grows in an unknown way
		oa := st.alloc()
		na := Fresh("alloc_after_"+funcKey(callee), allocSort)
		r := Fresh("r", IntSort)
		ex.assume(st, Forall([]*Term{r}, Implies(Select(oa, r), Select(na, r)), Select(oa, r)))
		st.heapSet(allocKey, na)
	}
	if len(c.Modifies) == 0 && !c.Allocates && !c.HavocAll {
		// a callee that modifies and allocates nothing returns only references that existed before
		// (checked on the callee's side as obligation post.noalloc)
		for _, rv := range rvals {
			ex.assumeHeapWF(old, rv)
		}
	} else {
		// result references are allocated afterwards; contents of newly allocated result objects are unknown
		for _, rv := range rvals {
			fx.allocResult(st, old, rv)
		}
	}
	switch sig.Len() {
	case 0:
	case 1:
		res = rvals[0]
	default:
		res = Val{T: sig, Tuple: rvals}
	}
	env2 := &SpecEnv{ex: ex, fx: fx, st: st, old: old, vars: map[string]Val{}, fn: callee}
	bindParams(env2, c, callee, args)
	for i, rn := range c.Results {
		if i < len(rvals) {
			env2.vars[rn] = rvals[i]
		}
	}
	for i, cl := range c.Ensures {
		if strings.Contains(cl.Src, "ghost(") {
			// a postcondition over the callee's own ghost counters says nothing the caller can use: the
			// counters of the caller are different ones (evaluating it here would constrain those)
			ex.Dropped["postcondition over ghost counters of callee "+name+" is not assumed at its call sites"] = true
			continue
		}
		t := env2.evalBool(cl)
		// a clause with a recorded known finding is only assumed outside the failing region
		if kf := knownFor(fmt.Sprintf("%s#post.%d", name, i+1)); kf != nil {
			if kf.Region == "" {
				continue
			}
			re, err := ParseSpecExpr(kf.Region)
			if err != nil {
				fail("known_findings.json: region %q: %v", kf.Region, err)
			}
			t = Implies(Not(env2.evalBool(Clause{Expr: re, Src: kf.Region, Line: "known_findings.json"})), t)
		}
		ex.assume(st, t)
	}
	for _, rv := range rvals {
		ex.assumeHeapWF(st, rv)
	}
	return res
}

func bindParams(env *SpecEnv, c *Contract, callee *ssa.Function, args []Val) {
	for i, pn := range c.Params {
		if i < len(args) {
			env.vars[pn] = args[i]
		}
	}
	// also bind by the callee's own parameter names when the contract header omits names
	if len(c.Params) == 0 {
		for i, p := range callee.Params {
			if i < len(args) {
				env.vars[p.Name()] = args[i]
			}
		}
	}
}

func (fx *fnExec) allocResult(st, old *State, rv Val) {
	if rv.T == nil {
		return
	}
	switch u := rv.T.Underlying().(type) {
	case *types.Slice:
		ref := rv.C[0]
		wasAlloc := Select(old.alloc(), ref)
		st.heapSet(allocKey, Store(st.alloc(), ref, True))
		for k, srt := range layout(u.Elem()) {
			key := elemKey(u.Elem(), k)
			rowS := ArraySort(BV64, srt)
			h := st.heapGet(key, ArraySort(IntSort, rowS))
			fr := Fresh("newrow", rowS)
			st.heapSet(key, Store(h, ref, Ite(Or(wasAlloc, Eq(ref, IntC(0))), Select(h, ref), fr)))
		}
	case *types.Pointer:
		ref := rv.C[0]
		wasAlloc := Select(old.alloc(), ref)
		st.heapSet(allocKey, Store(st.alloc(), ref, True))
		if _, ok := u.Elem().Underlying().(*types.Struct); ok {
			cur := fx.ex.loadObj(st, u.Elem(), ref)
			fr := freshVal("newobj", u.Elem())
			nc := make([]*Term, len(cur.C))
			for k := range cur.C {
				nc[k] = Ite(Or(wasAlloc, Eq(ref, IntC(0))), cur.C[k], fr.C[k])
			}
			fx.ex.storeObj(st, u.Elem(), ref, Val{T: u.Elem(), C: nc})
		}
	case *types.Struct:
		for i := 0; i < u.NumFields(); i++ {
			fx.allocResult(st, old, fieldOf(rv, i))
		}
	}
}

// Loc is a heap location set named by a modifies clause.
type Loc struct {
	Kind  string // field, obj, elems, global
	Ptr   *MetaPtr
	Slice Val
	Val   Val
	Guard *Term // the base pointer is non-nil (nil: unconditional)
	Keys  []string // Kind "key": whole heap keys (type-level frame T.f)
	Spare bool     // Kind "elems": the spare capacity [len, cap) instead of the elements [0, len)
	Exact bool     // Kind "elems": onlyelems(s)/onlyspare(s) of a trusted contract: nothing outside that index range changes
}

func (fx *fnExec) havocLoc(st *State, loc Loc) {
	ex := fx.ex
	switch loc.Kind {
	case "ptr":
		if loc.Guard != nil && loc.Guard.IsFalse() {
			return // location behind a nil pointer: nothing to modify
		}
		mp := ex.resolve(loc.Ptr)
		cur := fx.load(st, mp)
		nv := fx.freshOf("mod", cur.T, st)
		if loc.Guard != nil && !loc.Guard.IsTrue() {
			nc := make([]*Term, len(nv.C))
			for k := range nv.C {
				nc[k] = Ite(loc.Guard, nv.C[k], cur.C[k])
			}
			nv = Val{T: nv.T, C: nc}
		}
		fx.store(st, mp, nv)
	case "elems":
		s := loc.Slice
		et := s.T.Underlying().(*types.Slice).Elem()
		for k, srt := range layout(et) {
			key := elemKey(et, k)
			rowS := ArraySort(BV64, srt)
			h := st.heapGet(key, ArraySort(IntSort, rowS))
			oldRow := Select(h, s.C[0])
			newRow := Fresh("modrow", rowS)
			// a nil slice has no backing array: nothing can be written through it
			st.heapSet(key, Store(h, s.C[0], Ite(Eq(s.C[0], IntC(0)), oldRow, newRow)))
			// elems(s)/spare(s): the whole backing array may change (what the callee-side frame check
			// allows); onlyelems(s)/onlyspare(s) (trusted contracts only): just [off, off+len) resp.
			// [off+len, off+cap)
			if loc.Exact {
				lo, hi := s.C[1], BVAdd(s.C[1], s.C[2])
				if loc.Spare {
					lo, hi = BVAdd(s.C[1], s.C[2]), BVAdd(s.C[1], s.C[3])
				}
				i := Fresh("qi", BV64)
				ex.assume(st, Forall([]*Term{i}, Implies(Or(BVSlt(i, lo), BVSle(hi, i)), Eq(Select(newRow, i), Select(oldRow, i))), Select(newRow, i)))
			}
		}
	case "key":
		// whole heap key(s) of a struct type field: modifies T.f (any object)
		for _, key := range loc.Keys {
			srt := heapSorts[key]
			if srt == nil {
				srt = keySortHint[key]
			}
			if srt == nil {
				fail("modifies: heap key %s has unknown sort", key)
			}
			initialHeap(key, srt)
			st.heapSet(key, Fresh("mod_"+key, srt))
		}
	}
}

// callSiteHooks evaluates `assert at call` and ghost updates of the enclosing unit's contract.
func (fx *fnExec) callSiteHooks(callee *ssa.Function, args []Val, st *State, pos token.Pos) {
	if fx.c == nil {
		return
	}
	key := funcKey(callee)
	short := callee.Name()
	match := func(n string) bool { return n == key || n == short || n == shortPkg(callee)+"."+short }
	for i, a := range fx.c.Asserts {
		if !match(a.Callee) {
			continue
		}
		fx.callCount[fmt.Sprintf("assert:%d:%s", i, a.Callee)]++
		noteAssertFired(fx.c, i)
		if a.Nth != 0 && a.Nth != fx.callCount[fmt.Sprintf("assert:%d:%s", i, a.Callee)] {
			continue
		}
		env := fx.specEnv(st, fx.entry, nil)
		env.at = pos
		cc := fx.ex.L.contractFor(callee)
		if cc != nil {
			for j, pn := range cc.Params {
				if j < len(args) {
					env.vars["$"+pn] = args[j]
				}
			}
		}
		for j, p := range callee.Params {
			if j < len(args) {
				env.vars["$"+p.Name()] = args[j]
				env.vars[fmt.Sprintf("$%d", j)] = args[j]
			}
		}
		t := env.evalBool(a.Cond)
		fx.oblige(fmt.Sprintf("assertcall.%s.%d#%d", a.Callee, i+1, fx.callCount[fmt.Sprintf("assert:%d:%s", i, a.Callee)]), "assertcall", st, t, pos, a.Cond.Src)
	}
	for gi, g := range fx.c.Ghost {
		if !match(g.Callee) || g.After {
			continue
		}
		noteGhostFired(fx.c, gi)
		env := fx.specEnv(st, fx.entry, nil)
		for j, p := range callee.Params {
			if j < len(args) {
				env.vars["$"+p.Name()] = args[j]
				env.vars[fmt.Sprintf("$%d", j)] = args[j]
			}
		}
		d := env.eval(g.Delta.Expr)
		dt := toBV64(env.coerce(d, tInt))
		if g.When != nil {
			dt = Ite(env.evalBool(*g.When), dt, BVI(0, 64))
		}
		cur, ok := st.Ghost[g.Name]
		if !ok {
			cur = BVI(0, 64)
		}
		st.Ghost[g.Name] = fx.ghostAdd(st, cur, dt)
	}
}

// ---- interface method calls ----

func (fx *fnExec) invoke(recv Val, m *types.Func, args []Val, st *State, pos token.Pos, rt types.Type) Val {
	ex := fx.ex
	it := recv.T
	// the dynamic type is known (the interface value was made from a concrete type in this unit):
	// call that type's method directly, through its contract or body
	if recv.C[0].IsConst() && recv.C[0].Val != nil && recv.C[0].Val.IsInt64() {
		if dt, ok := ex.tagType[int(recv.C[0].Val.Int64())]; ok {
			if sel := ex.L.Prog.MethodSets.MethodSet(dt).Lookup(m.Pkg(), m.Name()); sel != nil {
				if fn := ex.L.Prog.MethodValue(sel); fn != nil {
					rv := ex.unbox(dt, recv.C[1])
					return fx.callStatic(fn, append([]Val{rv}, args...), nil, st, pos, rt)
				}
			}
		}
	}
	// contract on the interface method?
	iname := typeName(it) + "." + m.Name()
	if named, ok := it.(*types.Named); ok && named.Obj().Pkg() != nil {
		// contracts scoped to the unit's package (`//@ only`) take precedence
		if currentUnitPkg != "" {
			if scs := ex.L.PkgContracts[currentUnitPkg+"|"+named.Obj().Pkg().Path()]; scs != nil {
				if c, ok := scs.ByKey["("+named.Obj().Name()+")."+m.Name()]; ok {
					ex.TrustedUsed["interface contract:"+iname] = true
					fx.invokeHooks(m, recv, args, st, pos)
					return fx.applyIfaceContract(c, m, append([]Val{recv}, args...), st, pos, rt)
				}
			}
		}
		cs := ex.L.PkgContracts[named.Obj().Pkg().Path()]
		if cs != nil {
			if c, ok := cs.ByKey["("+named.Obj().Name()+")."+m.Name()]; ok {
				ex.TrustedUsed["interface contract:"+iname] = true
				fx.invokeHooks(m, recv, args, st, pos)
				return fx.applyIfaceContract(c, m, append([]Val{recv}, args...), st, pos, rt)
			}
		}
	}
	// dispatch over the implementations in the repository package that declares the interface
	named, ok := it.(*types.Named)
	if ok && named.Obj().Pkg() != nil && strings.HasPrefix(named.Obj().Pkg().Path(), modPath) {
		impls := ex.implementations(named, m)
		if len(impls) > 0 && len(impls) <= 48 {
			return fx.dispatch(recv, impls, args, st, pos, rt, iname)
		}
	}
	fx.nopanic("nil", st, Neq(recv.C[0], IntC(0)), pos)
	fx.invokeHooks(m, recv, args, st, pos) // (dispatched and devirtualised calls run the static hooks instead)
	if ex.HavocCallsC != nil {
		return fx.havocCall("interface method "+iname, nil, st, rt)
	}
	return fx.opaqueCall("interface method "+iname, nil, args, st, rt)
}

type impl struct {
	T  types.Type
	Fn *ssa.Function
}

func (ex *Exec) implementations(it *types.Named, m *types.Func) []impl {
	iface := it.Underlying().(*types.Interface)
	sp := ex.L.SPkgs[it.Obj().Pkg().Path()]
	var out []impl
	var names []string
	for n := range sp.Members {
		names = append(names, n)
	}
	sort.Strings(names)
	for _, n := range names {
		tm, ok := sp.Members[n].(*ssa.Type)
		if !ok {
			continue
		}
		if _, isIface := tm.Type().Underlying().(*types.Interface); isIface {
			continue
		}
		for _, t := range []types.Type{tm.Type(), types.NewPointer(tm.Type())} {
			if !types.Implements(t, iface) {
				continue
			}
			sel := ex.L.Prog.MethodSets.MethodSet(t).Lookup(m.Pkg(), m.Name())
			if sel == nil {
				continue
			}
			fn := ex.L.Prog.MethodValue(sel)
			if fn != nil {
				out = append(out, impl{t, fn})
			}
			break // value type implementing implies pointer too; the boxed dynamic type is what matters
		}
	}
	return out
}

func (fx *fnExec) dispatch(recv Val, impls []impl, args []Val, st *State, pos token.Pos, rt types.Type, iname string) Val {
	ex := fx.ex
	var ins []edgeIn
	var vals []Val
	var anyTag []*Term
	base := st.clone()
	for _, im := range impls {
		tagEq := Eq(recv.C[0], ex.typeTag(im.T))
		anyTag = append(anyTag, tagEq)
		s := base.clone()
		s.Reach = And(base.Reach, tagEq)
		if s.Reach.IsFalse() {
			continue
		}
		rv := ex.unbox(im.T, recv.C[1])
		ex.assumeAll(s, typeInv(rv, 0))
		ex.assumeHeapWF(s, rv)
		// the method may be declared on the pointer or on the value
		fn := im.Fn
		callArgs := append([]Val{rv}, args...)
		if fn.Synthetic != "" && len(fn.Blocks) > 0 {
			// wrapper: run it (it calls the real method)
		}
		v := fx.callStatic(fn, callArgs, nil, s, pos, rt)
		ins = append(ins, edgeIn{st: s, cond: s.Reach})
		vals = append(vals, v)
	}
	// the dynamic type is one of the known implementations (closed world inside the package) or nil
	fx.nopanic("nil", st, Neq(recv.C[0], IntC(0)), pos)
	ex.Dropped["closed-world dispatch for "+iname+": dynamic type assumed to be one of the package's implementations"] = true
	ex.assume(st, Or(anyTag...))
	out, err := mergeStates(ins)
	if err != nil {
		fail("%s: dispatch merge: %v", fx.fn, err)
	}
	var conds []*Term
	var lv []Val
	for i, e := range ins {
		if !e.cond.IsFalse() {
			conds = append(conds, e.cond)
			lv = append(lv, vals[i])
		}
	}
	*st = *out
	if len(lv) == 0 {
		st.Reach = False
		return Val{}
	}
	if rt == nil || (len(lv[0].C) == 0 && lv[0].Tuple == nil) {
		return Val{}
	}
	v, err := mergeVals(conds, lv)
	if err != nil {
		fail("%s: dispatch result merge: %v", fx.fn, err)
	}
	return v
}

func (fx *fnExec) applyIfaceContract(c *Contract, m *types.Func, args []Val, st *State, pos token.Pos, rt types.Type) Val {
	ex := fx.ex
	name := c.Key
	fx.callCount["call:"+name]++
	k := fx.callCount["call:"+name]
	env := &SpecEnv{ex: ex, fx: fx, st: st, old: st, vars: map[string]Val{}}
	for i, pn := range c.Params {
		if i < len(args) {
			env.vars[pn] = args[i]
		}
	}
	for i, cl := range c.Requires {
		fx.oblige(fmt.Sprintf("pre.%s#%d.%d", name, k, i+1), "pre", st, env.evalBool(cl), pos, cl.Src)
	}
	old := st.clone()
	env.old, env.st = old, old
	for _, mcl := range c.Modifies {
		fx.havocLoc(st, env.evalLoc(mcl))
	}
	sig := m.Type().(*types.Signature).Results()
	var rvals []Val
	for i := 0; i < sig.Len(); i++ {
		rv := freshVal(fmt.Sprintf("%s_r%d", m.Name(), i), sig.At(i).Type())
		ex.assumeAll(st, typeInv(rv, 0))
		rvals = append(rvals, rv)
		fx.allocResult(st, old, rv)
	}
	env2 := &SpecEnv{ex: ex, fx: fx, st: st, old: old, vars: map[string]Val{}}
	for i, pn := range c.Params {
		if i < len(args) {
			env2.vars[pn] = args[i]
		}
	}
	for i, rn := range c.Results {
		if i < len(rvals) {
			env2.vars[rn] = rvals[i]
		}
	}
	for _, cl := range c.Ensures {
		ex.assume(st, env2.evalBool(cl))
	}
	switch len(rvals) {
	case 0:
		return Val{}
	case 1:
		return rvals[0]
	}
	return Val{T: sig, Tuple: rvals}
}

// ---- builtins ----

func (fx *fnExec) builtin(b *ssa.Builtin, cc *ssa.CallCommon, st *State, pos token.Pos, rt types.Type) Val {
	ex := fx.ex
	var args []Val
	for _, a := range cc.Args {
		args = append(args, fx.value(a, st))
	}
	switch b.Name() {
	case "len":
		x := args[0]
		switch u := x.T.Underlying().(type) {
		case *types.Slice:
			return intVal(x.C[2])
		case *types.Basic:
			return intVal(x.C[2])
		case *types.Array:
			return intVal(BVI(u.Len(), 64))
		case *types.Pointer:
			return intVal(BVI(u.Elem().Underlying().(*types.Array).Len(), 64))
		case *types.Map:
			return intVal(ex.mapLen(st, u, x.C[0]))
		case *types.Chan:
			n := Fresh("chanlen", BV64)
			ex.assume(st, BVSle(BVI(0, 64), n))
			return intVal(n)
		}
	case "cap":
		x := args[0]
		switch u := x.T.Underlying().(type) {
		case *types.Slice:
			return intVal(x.C[3])
		case *types.Array:
			return intVal(BVI(u.Len(), 64))
		}
	case "append":
		return fx.appendModel(args[0], args[1], st, rt)
	case "copy":
		return fx.copyModel(args[0], args[1], st)
	case "min", "max":
		r := args[0]
		for _, a := range args[1:] {
			var lt *Term
			if isSigned(r.T) {
				lt = BVSlt(a.S(), r.S())
			} else {
				lt = BVUlt(a.S(), r.S())
			}
			if b.Name() == "max" {
				// lt: a < r; max keeps r unless a > r
				gt := Not(Or(lt, Eq(a.S(), r.S())))
				r = scalar(r.T, Ite(gt, a.S(), r.S()))
			} else {
				r = scalar(r.T, Ite(lt, a.S(), r.S()))
			}
		}
		return r
	case "delete":
		m := args[0]
		mt := m.T.Underlying().(*types.Map)
		ks, _ := mapSorts(mt)
		key := fx.mapKeyTerm(args[1])
		hk := mapHasKey(mt)
		hs := ArraySort(IntSort, ArraySort(ks, BoolSort))
		h := st.heapGet(hk, hs)
		st.heapSet(hk, Store(h, m.C[0], Store(Select(h, m.C[0]), key, False)))
		ex.mapLenStep(st, mt, Select(h, m.C[0]), Store(Select(h, m.C[0]), key, False), key, false)
		return Val{}
	case "print", "println":
		return Val{}
	case "close":
		if fx.abstractOK("close of a channel (no effect in the sequential model)") {
			return Val{}
		}
	case "clear":
		x := args[0]
		if sl, ok := x.T.Underlying().(*types.Slice); ok {
			for k, srt := range layout(sl.Elem()) {
				key := elemKey(sl.Elem(), k)
				rowS := ArraySort(BV64, srt)
				h := st.heapGet(key, ArraySort(IntSort, rowS))
				nr := Fresh("cleared", rowS)
				j := Fresh("qj", BV64)
				in := And(BVSle(x.C[1], j), BVSlt(j, BVAdd(x.C[1], x.C[2])))
				ex.Assume = append(ex.Assume, Forall([]*Term{j}, Eq(Select(nr, j), Ite(in, zeroTerm(srt), Select(Select(h, x.C[0]), j))), Select(nr, j)))
				st.heapSet(key, Store(h, x.C[0], nr))
			}
			return Val{}
		}
	case "ssa:wrapnilchk":
		return args[0]
	case "ssa:deferstack":
		return Val{T: rt, C: []*Term{IntC(0)}}
	}
	fail("%s: builtin %s not supported", fx.fn, b.Name())
	return Val{}
}

func constInt(t *Term) (int64, bool) {
	if t.IsConst() && t.Val.IsInt64() {
		return t.Val.Int64(), true
	}
	return 0, false
}

// appendModel: append(s, t...) with exact aliasing semantics: in place when
// len+n <= cap, otherwise a fresh backing array that carries the old contents.
func (fx *fnExec) appendModel(s, t Val, st *State, rt types.Type) Val {
	ex := fx.ex
	sl := s.T.Underlying().(*types.Slice)
	et := sl.Elem()
	var n *Term
	var srcIsString bool
	if b, ok := t.T.Underlying().(*types.Basic); ok && b.Info()&types.IsString != 0 {
		n = t.C[2]
		srcIsString = true
	} else {
		n = t.C[2]
	}
	if isNilConst(t) || (n.IsConst() && n.Val.Sign() == 0) {
		s.T = rt
		return s
	}
	ref, off, ln, cp := s.C[0], s.C[1], s.C[2], s.C[3]
	newlen := BVAdd(ln, n)
	inplace := BVSle(newlen, cp)
	r2 := ex.newRef(st, "app")
	newcap := Fresh("newcap", BV64)
	ex.assume(st, And(BVSle(newlen, newcap), BVSle(newcap, BVAdd(maxLen, maxLen))))
	dstRef := Ite(inplace, ref, r2)
	base := BVAdd(off, ln)
	for k, srt := range layout(et) {
		key := elemKey(et, k)
		rowS := ArraySort(BV64, srt)
		h := st.heapGet(key, ArraySort(IntSort, rowS))
		row := Select(h, ref)
		var srcAt func(i *Term) *Term
		if srcIsString {
			srcAt = func(i *Term) *Term { return Select(t.C[0], BVAdd(t.C[1], i)) }
		} else {
			srow := Select(h, t.C[0])
			srcAt = func(i *Term) *Term { return Select(srow, BVAdd(t.C[1], i)) }
		}
		var nrow *Term
		if cn, ok := constInt(n); ok && cn <= 16 {
			nrow = row
			for i := int64(0); i < cn; i++ {
				nrow = Store(nrow, BVAdd(base, BVI(i, 64)), srcAt(BVI(i, 64)))
			}
		} else if ex.Bounded {
			nrow = qfBulk(ex, st, row, base, n, srcAt)
		} else {
			nrow = Fresh("approw", rowS)
			j := Fresh("qj", BV64)
			in := And(BVSle(base, j), BVSlt(j, BVAdd(base, n)))
			ex.Assume = append(ex.Assume, Forall([]*Term{j}, Eq(Select(nrow, j), Ite(in, srcAt(BVSub(j, base)), Select(row, j))), Select(nrow, j)))
		}
		st.heapSet(key, Store(h, dstRef, nrow))
	}
	return Val{T: rt, C: []*Term{dstRef, off, newlen, Ite(inplace, cp, newcap)}}
}

func (fx *fnExec) copyModel(dst, src Val, st *State) Val {
	ex := fx.ex
	dl := dst.T.Underlying().(*types.Slice)
	et := dl.Elem()
	var n *Term
	sn := src.C[2]
	n = Ite(BVSlt(dst.C[2], sn), dst.C[2], sn)
	srcIsString := false
	if b, ok := src.T.Underlying().(*types.Basic); ok && b.Info()&types.IsString != 0 {
		srcIsString = true
	}
	base := dst.C[1]
	for k, srt := range layout(et) {
		key := elemKey(et, k)
		rowS := ArraySort(BV64, srt)
		h := st.heapGet(key, ArraySort(IntSort, rowS))
		row := Select(h, dst.C[0])
		var srcAt func(i *Term) *Term
		if srcIsString {
			srcAt = func(i *Term) *Term { return Select(src.C[0], BVAdd(src.C[1], i)) }
		} else {
			srow := Select(h, src.C[0])
			srcAt = func(i *Term) *Term { return Select(srow, BVAdd(src.C[1], i)) }
		}
		var nrow *Term
		if cn, ok := constInt(n); ok && cn <= 16 {
			nrow = row
			for i := int64(0); i < cn; i++ {
				nrow = Store(nrow, BVAdd(base, BVI(i, 64)), srcAt(BVI(i, 64)))
			}
		} else if ex.Bounded {
			nrow = qfBulk(ex, st, row, base, n, srcAt)
		} else {
			nrow = Fresh("cprow", rowS)
			j := Fresh("qj", BV64)
			in := And(BVSle(base, j), BVSlt(j, BVAdd(base, n)))
			ex.Assume = append(ex.Assume, Forall([]*Term{j}, Eq(Select(nrow, j), Ite(in, srcAt(BVSub(j, base)), Select(row, j))), Select(nrow, j)))
		}
		st.heapSet(key, Store(h, dst.C[0], nrow))
	}
	return intVal(n)
}

// ---- models of standard library functions (trusted, listed in evidence) ----

type stdModel func(fx *fnExec, args []Val, st *State, pos token.Pos, rt types.Type) Val

var stdModels = map[string]stdModel{}

func init() {
	nonNilErr := func(fx *fnExec, args []Val, st *State, pos token.Pos, rt types.Type) Val {
		v := freshVal("err", rt)
		fx.ex.assume(st, And(IntLt(IntC(0), v.C[0]), IntLt(IntC(0), v.C[1])))
		return v
	}
	stdModels["errors.New"] = nonNilErr
	stdModels["fmt.Errorf"] = nonNilErr
	stdModels["fmt.Sprintf"] = func(fx *fnExec, args []Val, st *State, pos token.Pos, rt types.Type) Val {
		return fx.freshOf("sprintf", rt, st)
	}
	stdModels["fmt.Sprint"] = stdModels["fmt.Sprintf"]
	stdModels["strconv.Itoa"] = stdModels["fmt.Sprintf"]
	stdModels["bytes.Equal"] = func(fx *fnExec, args []Val, st *State, pos token.Pos, rt types.Type) Val {
		a, b := args[0], args[1]
		et := a.T.Underlying().(*types.Slice).Elem()
		h := st.heapGet(elemKey(et, 0), ArraySort(IntSort, StrArr))
		sa := Val{T: tString, C: []*Term{Select(h, a.C[0]), a.C[1], a.C[2]}}
		sb := Val{T: tString, C: []*Term{Select(h, b.C[0]), b.C[1], b.C[2]}}
		return boolVal(strEq(sa, sb))
	}
}

// qfBulk is the quantifier-free bulk copy used in bounded mode: at most BoundK+2 elements
// (longer copies are excluded by an assumption, recorded as a bound).
func qfBulk(ex *Exec, st *State, row, base, n *Term, srcAt func(i *Term) *Term) *Term {
	k := int64(ex.BoundK + 2)
	ex.assume(st, BVSle(n, BVI(k, 64)))
	ex.Dropped[fmt.Sprintf("bounded: bulk copies limited to %d elements", k)] = true
	nrow := row
	for i := int64(0); i < k; i++ {
		nrow = Ite(BVSlt(BVI(i, 64), n), Store(nrow, BVAdd(base, BVI(i, 64)), srcAt(BVI(i, 64))), nrow)
	}
	return nrow
}

package main

import (
	"fmt"
	"go/types"
	"strings"

	"golang.org/x/tools/go/ssa"
)

// lemmaClauseEval renders Go code that evaluates a lemma's ensures clause on the observed results
// (named as in the lemma's signature). Only clauses in the Go-expression fragment plus ==> are
// rendered; ok is false otherwise and the caller falls back to the single-result rule.
func lemmaClauseEval(fn *ssa.Function, clause string, argn, resn []string, pkg *types.Package) (string, bool) {
	for _, bad := range []string{"forall", "exists", "old(", "<==>", "::", "ghost(", "fresh(", "allocated(", "unchanged(", "seqeq(", "hastype("} {
		if strings.Contains(clause, bad) {
			return "", false
		}
	}
	sig := fn.Signature
	var sb strings.Builder
	sb.WriteString("\tfunc() {\n")
	for i := 0; i < sig.Params().Len(); i++ {
		n := sig.Params().At(i).Name()
		if n == "" || n == "_" || i >= len(argn) {
			continue
		}
		fmt.Fprintf(&sb, "\t\t%s := %s\n\t\t_ = %s\n", n, argn[i], n)
	}
	for i := 0; i < sig.Results().Len(); i++ {
		n := sig.Results().At(i).Name()
		if n == "" || n == "_" || i >= len(resn) {
			return "", false
		}
		fmt.Fprintf(&sb, "\t\t%s := %s\n\t\t_ = %s\n", n, resn[i], n)
	}
	fmt.Fprintf(&sb, "\t\tfmt.Println(\"REPLAY-CLAUSE:\", %s)\n\t}()\n", impliesToGo(clause))
	return sb.String(), true
}

// impliesToGo rewrites the right-associative top-level ==> of a spec expression into Go.
func impliesToGo(e string) string {
	depth := 0
	for i := 0; i+2 < len(e); i++ {
		switch e[i] {
		case '(', '[', '{':
			depth++
		case ')', ']', '}':
			depth--
		}
		if depth == 0 && e[i:i+3] == "==>" {
			return "!(" + e[:i] + ") || (" + impliesToGo(e[i+3:]) + ")"
		}
	}
	return e
}

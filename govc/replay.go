package main

// Counterexample replay: model -> Go literals -> in-package test injected with go test -overlay.

import (
	"bytes"
	"context"
	"encoding/json"
	"fmt"
	"go/types"
	"math/big"
	"os"
	"os/exec"
	"path/filepath"
	"strings"
	"time"

	"golang.org/x/tools/go/ssa"
)

const replayBytes = 48

type inNode struct {
	kind   string // scalar bytes string struct ptr iface unsupported
	t      types.Type
	terms  []*Term
	fields []*inNode
	why    string
}

// inputSchema lists the model terms needed to rebuild input v (heap contents from the initial heap).
func inputSchema(v Val, depth int) *inNode {
	if v.T == nil {
		return &inNode{kind: "unsupported", why: "untyped"}
	}
	switch u := v.T.Underlying().(type) {
	case *types.Basic:
		switch {
		case u.Info()&types.IsString != 0:
			n := &inNode{kind: "string", t: v.T, terms: []*Term{v.C[2]}}
			for i := 0; i < replayBytes; i++ {
				n.terms = append(n.terms, Select(v.C[0], BVAdd(v.C[1], BVI(int64(i), 64))))
			}
			return n
		case u.Info()&(types.IsInteger|types.IsBoolean) != 0:
			return &inNode{kind: "scalar", t: v.T, terms: []*Term{v.C[0]}}
		}
	case *types.Slice:
		ls := layout(u.Elem())
		if len(ls) == 1 && ls[0].Kind == KBV {
			n := &inNode{kind: "bytes", t: v.T, terms: []*Term{v.C[0], v.C[1], v.C[2], v.C[3]}}
			h := initialHeap(elemKey(u.Elem(), 0), ArraySort(IntSort, ArraySort(BV64, ls[0])))
			row := Select(h, v.C[0])
			for i := 0; i < replayBytes; i++ {
				n.terms = append(n.terms, Select(row, BVAdd(v.C[1], BVI(int64(i), 64))))
			}
			return n
		}
	case *types.Struct:
		n := &inNode{kind: "struct", t: v.T}
		for i := 0; i < u.NumFields(); i++ {
			f := inputSchema(fieldOf(v, i), depth)
			n.fields = append(n.fields, f)
		}
		return n
	case *types.Array:
		ls := layout(u.Elem())
		if len(ls) == 1 && ls[0].Kind != KArray && u.Len() <= 256 {
			n := &inNode{kind: "array", t: v.T}
			for i := int64(0); i < u.Len(); i++ {
				n.terms = append(n.terms, Select(v.C[0], BVI(i, 64)))
			}
			return n
		}
	case *types.Pointer:
		if st, ok := u.Elem().Underlying().(*types.Struct); ok && depth < 2 {
			_ = st
			ex := &Exec{embSeen: map[*Term]bool{}, tags: map[string]int{}}
			s0 := newState()
			obj := ex.loadObj(s0, u.Elem(), v.C[0])
			n := &inNode{kind: "ptr", t: v.T, terms: []*Term{v.C[0]}}
			n.fields = []*inNode{inputSchema(obj, depth+1)}
			return n
		}
	}
	return &inNode{kind: "unsupported", t: v.T, why: fmt.Sprintf("type %v", v.T)}
}

func (n *inNode) collect(out *[]*Term) {
	*out = append(*out, n.terms...)
	for _, f := range n.fields {
		f.collect(out)
	}
}

func parseSMTValue(s string) (*big.Int, bool) {
	s = strings.TrimSpace(s)
	switch {
	case s == "true":
		return big.NewInt(1), true
	case s == "false":
		return big.NewInt(0), true
	case strings.HasPrefix(s, "#b"):
		v, ok := new(big.Int).SetString(s[2:], 2)
		return v, ok
	case strings.HasPrefix(s, "#x"):
		v, ok := new(big.Int).SetString(s[2:], 16)
		return v, ok
	case strings.HasPrefix(s, "(- "):
		v, ok := new(big.Int).SetString(strings.TrimSuffix(strings.TrimPrefix(s, "(- "), ")"), 10)
		if ok {
			v.Neg(v)
		}
		return v, ok
	case strings.HasPrefix(s, "(_ bv"):
		f := strings.Fields(strings.Trim(s, "()"))
		if len(f) >= 2 {
			v, ok := new(big.Int).SetString(strings.TrimPrefix(f[1], "bv"), 10)
			return v, ok
		}
	}
	v, ok := new(big.Int).SetString(s, 10)
	return v, ok
}

func typeLit(t types.Type, pkg *types.Package) (string, bool) {
	ok := true
	s := types.TypeString(t, func(p *types.Package) string {
		if p == pkg {
			return ""
		}
		ok = false
		return p.Name()
	})
	return s, ok
}

func signedOf(v *big.Int, w int) *big.Int {
	r := new(big.Int).Set(v)
	if r.Bit(w-1) == 1 {
		r.Sub(r, new(big.Int).Lsh(big.NewInt(1), uint(w)))
	}
	return r
}

// goLiteral renders the node with model values vals (consumed in collect order).
func (n *inNode) goLiteral(vals []*big.Int, pos *int, pkg *types.Package) (string, error) {
	take := func() *big.Int {
		v := vals[*pos]
		*pos++
		if v == nil {
			return big.NewInt(0)
		}
		return v
	}
	tl, ok := typeLit(n.t, pkg)
	if n.kind != "unsupported" && !ok {
		return "", fmt.Errorf("type %v is not nameable from the package under test", n.t)
	}
	switch n.kind {
	case "scalar":
		v := take()
		b := n.t.Underlying().(*types.Basic)
		if b.Info()&types.IsBoolean != 0 {
			return fmt.Sprintf("%s(%v)", tl, v.Sign() != 0), nil
		}
		w, sg := intWidth(b)
		if sg {
			v = signedOf(v, w)
		}
		return fmt.Sprintf("%s(%s)", tl, v.String()), nil
	case "string":
		ln := take()
		var bs []byte
		for i := 0; i < replayBytes; i++ {
			bs = append(bs, byte(take().Int64()))
		}
		l := signedOf(ln, 64).Int64()
		if l < 0 || l > replayBytes {
			return "", fmt.Errorf("model string length %d outside replayable range", l)
		}
		return fmt.Sprintf("%s(%q)", tl, string(bs[:l])), nil
	case "bytes":
		ref, _, ln, cp := take(), take(), take(), take()
		var elems []*big.Int
		for i := 0; i < replayBytes; i++ {
			elems = append(elems, take())
		}
		if ref.Sign() == 0 {
			return fmt.Sprintf("%s(nil)", tl), nil
		}
		l, c := signedOf(ln, 64).Int64(), signedOf(cp, 64).Int64()
		if l < 0 || l > replayBytes || c > 1<<20 {
			return "", fmt.Errorf("model slice len %d cap %d outside replayable range", l, c)
		}
		et := n.t.Underlying().(*types.Slice).Elem()
		w, sg := intWidth(et.Underlying().(*types.Basic))
		var parts []string
		for i := int64(0); i < l; i++ {
			v := elems[i]
			if sg {
				v = signedOf(v, w)
			}
			parts = append(parts, v.String())
		}
		return fmt.Sprintf("append(make(%s, 0, %d), %s{%s}...)", tl, c, tl, strings.Join(parts, ", ")), nil
	case "array":
		et := n.t.Underlying().(*types.Array).Elem()
		b := et.Underlying().(*types.Basic)
		var parts []string
		for range n.terms {
			v := take()
			if b.Info()&types.IsBoolean != 0 {
				parts = append(parts, fmt.Sprint(v.Sign() != 0))
				continue
			}
			w, sg := intWidth(b)
			if sg {
				v = signedOf(v, w)
			}
			parts = append(parts, v.String())
		}
		return fmt.Sprintf("%s{%s}", tl, strings.Join(parts, ", ")), nil
	case "struct":
		st := n.t.Underlying().(*types.Struct)
		var parts []string
		for i, f := range n.fields {
			if f.kind == "unsupported" {
				// leave zero, but consume nothing
				continue
			}
			s, err := f.goLiteral(vals, pos, pkg)
			if err != nil {
				return "", err
			}
			parts = append(parts, fmt.Sprintf("%s: %s", st.Field(i).Name(), s))
		}
		return fmt.Sprintf("%s{%s}", tl, strings.Join(parts, ", ")), nil
	case "ptr":
		ref := take()
		inner, err := n.fields[0].goLiteral(vals, pos, pkg)
		if err != nil {
			return "", err
		}
		if ref.Sign() == 0 {
			return fmt.Sprintf("(%s)(nil)", tl), nil
		}
		return "&" + inner, nil
	}
	return "", fmt.Errorf("input not replayable: %s", n.why)
}

type ReplayResult struct {
	Confirmed bool
	File      string
	Output    string
	Note      string
}

// replayCall builds and runs a test calling fn with the model inputs. For lemmas the
// counterexample is confirmed when the harness returns false or panics; for nopanic
// obligations when the call panics.
func replayCall(l *Loader, fn *ssa.Function, isLemma bool, o *Obl, outDir string) ReplayResult {
	rr := ReplayResult{}
	pkg := fn.Pkg
	if pkg == nil {
		rr.Note = "function has no package (generic instance)"
		return rr
	}
	if fn.Signature.Recv() != nil && !isLemma {
		// methods: receiver is the first input
	}
	var nodes []*inNode
	var terms []*Term
	for _, in := range o.Inputs {
		n := inputSchema(in.V, 0)
		nodes = append(nodes, n)
		n.collect(&terms)
	}
	// re-solve with small sizes for a replayable model
	var small []*Term
	for _, in := range o.Inputs {
		small = append(small, sizeBounds(in.V)...)
	}
	roots := []*Term{o.Reach, o.Goal}
	as := coneOfInfluence(o.Assume, roots)
	as = append(as, o.Reach)
	script := Script(append(append([]*Term{}, as...), small...), o.Goal, true, terms)
	file := filepath.Join(outDir, "replay_"+sanitize(o.Name)+".smt2")
	res := race(script, file, 20)
	if res.verdict != "sat" {
		script = Script(as, o.Goal, true, terms)
		res = race(script, file, 20)
		if res.verdict != "sat" {
			rr.Note = "no model for replay (" + res.verdict + ")"
			return rr
		}
	}
	if len(terms) == 0 {
		res.output = ""
	}
	raw := parseGetValue(res.output)
	vals := make([]*big.Int, len(terms))
	for i := range terms {
		if i < len(raw) {
			if v, ok := parseSMTValue(raw[i]); ok {
				vals[i] = v
			}
		}
	}
	pos := 0
	var lits []string
	for _, n := range nodes {
		s, err := n.goLiteral(vals, &pos, pkg.Pkg)
		if err != nil {
			rr.Note = err.Error()
			return rr
		}
		lits = append(lits, s)
	}
	var sb strings.Builder
	fmt.Fprintf(&sb, "package %s\n\nimport (\n\t\"fmt\"\n\t\"testing\"\n)\n\n", pkg.Pkg.Name())
	fmt.Fprintf(&sb, "// replay of obligation %s\nfunc TestVerifReplay(t *testing.T) {\n", o.Name)
	sb.WriteString("\tdefer func() {\n\t\tif r := recover(); r != nil {\n\t\t\tfmt.Println(\"REPLAY-PANIC:\", r)\n\t\t}\n\t}()\n")
	for i, s := range lits {
		fmt.Fprintf(&sb, "\tin%d := %s\n", i, s)
	}
	var call string
	var argn []string
	if len(o.FixedArgs) > 0 {
		// `each` instance: some parameters are fixed to declared constants
		c := l.contractFor(fn)
		next := 0
		for i, p := range fn.Params {
			n := p.Name()
			if c != nil && i < len(c.Params) {
				n = c.Params[i]
			}
			if expr, ok := o.FixedArgs[n]; ok {
				argn = append(argn, expr)
				continue
			}
			argn = append(argn, fmt.Sprintf("in%d", next))
			next++
		}
	} else {
		for i := range lits {
			argn = append(argn, fmt.Sprintf("in%d", i))
		}
	}
	if fn.Signature.Recv() != nil {
		call = fmt.Sprintf("%s.%s(%s)", argn[0], fn.Name(), strings.Join(argn[1:], ", "))
	} else {
		call = fmt.Sprintf("%s(%s)", fn.Name(), strings.Join(argn, ", "))
	}
	nres := fn.Signature.Results().Len()
	clauseEvaluated := false
	if nres == 0 {
		fmt.Fprintf(&sb, "\t%s\n\tfmt.Println(\"REPLAY-RESULT: returned\")\n", call)
	} else {
		var rn []string
		for i := 0; i < nres; i++ {
			rn = append(rn, fmt.Sprintf("r%d", i))
		}
		fmt.Fprintf(&sb, "\t%s := %s\n\tfmt.Println(\"REPLAY-RESULT:\", %s)\n", strings.Join(rn, ", "), call, strings.Join(rn, ", "))
		if isLemma && len(o.FixedArgs) == 0 && fn.Signature.Recv() == nil {
			// evaluate the failed clause itself on the observed results
			if body, ok := lemmaClauseEval(fn, o.Src, argn, rn, pkg.Pkg); ok {
				sb.WriteString(body)
				clauseEvaluated = true
			}
		}
	}
	sb.WriteString("}\n")
	src := sb.String()
	dir := filepath.Join(repoDir, strings.TrimPrefix(strings.TrimPrefix(pkg.Pkg.Path(), modPath), "/"))
	out, err := runOverlayTest(dir, src, outDir, "TestVerifReplay")
	rr.Output = out
	rr.File = src
	if err != nil && !strings.Contains(out, "REPLAY-") {
		rr.Note = "replay test did not run: " + firstLines(out, 6)
		return rr
	}
	if isLemma && clauseEvaluated {
		rr.Confirmed = strings.Contains(out, "REPLAY-CLAUSE: false") || strings.Contains(out, "REPLAY-PANIC:")
	} else if isLemma {
		rr.Confirmed = strings.Contains(out, "REPLAY-RESULT: false") || strings.Contains(out, "REPLAY-PANIC:")
	} else {
		rr.Confirmed = strings.Contains(out, "REPLAY-PANIC:")
	}
	return rr
}

func sizeBounds(v Val) []*Term {
	var out []*Term
	if v.T == nil {
		return nil
	}
	switch u := v.T.Underlying().(type) {
	case *types.Basic:
		if u.Info()&types.IsString != 0 {
			out = append(out, BVSle(v.C[2], BVI(replayBytes, 64)))
		}
	case *types.Slice:
		out = append(out, BVSle(v.C[2], BVI(replayBytes, 64)), BVSle(v.C[3], BVI(4096, 64)))
	case *types.Struct:
		for i := 0; i < u.NumFields(); i++ {
			out = append(out, sizeBounds(fieldOf(v, i))...)
		}
	}
	return out
}

func runOverlayTest(pkgDir, src, outDir, testName string) (string, error) {
	os.MkdirAll(outDir, 0o755)
	tf := filepath.Join(outDir, "zz_verif_replay_test.go")
	if err := os.WriteFile(tf, []byte(src), 0o644); err != nil {
		return "", err
	}
	ov := map[string]map[string]string{"Replace": {filepath.Join(pkgDir, "zz_verif_replay_test.go"): tf}}
	ob, _ := json.Marshal(ov)
	of := filepath.Join(outDir, "overlay.json")
	os.WriteFile(of, ob, 0o644)
	ctx, cancel := context.WithTimeout(context.Background(), 180*time.Second)
	defer cancel()
	cmd := exec.CommandContext(ctx, "/usr/bin/go", "test", "-tags", "verif", "-overlay", of, "-vet=off", "-count=1", "-timeout", "60s", "-run", "^"+testName+"$", "-v", ".")
	cmd.Dir = pkgDir
	var env []string
	for _, e := range os.Environ() {
		if strings.HasPrefix(e, "GOTOOLCHAIN=") || strings.HasPrefix(e, "PATH=") || strings.HasPrefix(e, "GOFLAGS=") || strings.HasPrefix(e, "GOSUMDB=") {
			continue
		}
		env = append(env, e)
	}
	path := os.Getenv("PATH")
	path = strings.TrimPrefix(path, "/opt/veriftools/go1.26.8/bin:")
	env = append(env, "PATH="+path, "GOFLAGS=-mod=mod", "GOPROXY=off")
	cmd.Env = env
	var buf bytes.Buffer
	cmd.Stdout = &buf
	cmd.Stderr = &buf
	err := cmd.Run()
	return buf.String(), err
}

package main

// Models of standard-library functions that have no Go body (intrinsics) or whose behaviour is
// part of the trusted base. Every model used is listed in the evidence under trusted_base.

import (
	"go/token"
	"go/types"
)

// atomicField returns the pointer to the value field `v` of a sync/atomic typed value.
func atomicField(fx *fnExec, recv Val, st *State, pos token.Pos) *MetaPtr {
	mp := fx.ptrOf(recv, st, pos, true)
	stt := navigateType(mp).Underlying().(*types.Struct)
	for i := 0; i < stt.NumFields(); i++ {
		if stt.Field(i).Name() == "v" {
			return mp.extend(Step{Field: i})
		}
	}
	fail("atomic type without field v")
	return nil
}

func init() {
	// sync/atomic typed values: sequential semantics (the unit is assumed to run without concurrent
	// writers to the same variable; listed as an assumption where used)
	for _, tn := range []string{"Int32", "Int64", "Uint32", "Uint64"} {
		tn := tn
		stdModels["(*sync/atomic."+tn+").Load"] = func(fx *fnExec, args []Val, st *State, pos token.Pos, rt types.Type) Val {
			v := fx.load(st, atomicField(fx, args[0], st, pos))
			v.T = rt
			return v
		}
		stdModels["(*sync/atomic."+tn+").Store"] = func(fx *fnExec, args []Val, st *State, pos token.Pos, rt types.Type) Val {
			fx.store(st, atomicField(fx, args[0], st, pos), args[1])
			return Val{}
		}
		stdModels["(*sync/atomic."+tn+").Add"] = func(fx *fnExec, args []Val, st *State, pos token.Pos, rt types.Type) Val {
			mp := atomicField(fx, args[0], st, pos)
			v := fx.load(st, mp)
			nv := scalar(v.T, BVAdd(v.S(), args[1].S()))
			fx.store(st, mp, nv)
			nv.T = rt
			return nv
		}
		stdModels["(*sync/atomic."+tn+").Swap"] = func(fx *fnExec, args []Val, st *State, pos token.Pos, rt types.Type) Val {
			mp := atomicField(fx, args[0], st, pos)
			v := fx.load(st, mp)
			fx.store(st, mp, args[1])
			v.T = rt
			return v
		}
	}
	stdModels["(*sync/atomic.Bool).Load"] = func(fx *fnExec, args []Val, st *State, pos token.Pos, rt types.Type) Val {
		v := fx.load(st, atomicField(fx, args[0], st, pos))
		return boolVal(Neq(v.S(), BVI(0, v.S().Sort.W)))
	}
	stdModels["(*sync/atomic.Bool).Store"] = func(fx *fnExec, args []Val, st *State, pos token.Pos, rt types.Type) Val {
		mp := atomicField(fx, args[0], st, pos)
		cur := fx.load(st, mp)
		w := cur.S().Sort.W
		fx.store(st, mp, scalar(cur.T, Ite(args[1].S(), BVI(1, w), BVI(0, w))))
		return Val{}
	}
}

package main

import (
	"fmt"
	"go/types"
	"sort"
	"strings"

	"golang.org/x/tools/go/ssa"
)

type UnitResult struct {
	Name     string
	Kind     string // func, lemma
	Obls     []*Obl
	Err      string
	Exec     *Exec
	Bounded  bool
	Fn       *ssa.Function
	Prefix   string
	Instances int
}

// inlineAll makes calls to repository functions execute the callee body instead of using its
// contract (counterexample search for replay; results are never counted as proof).
var inlineAll bool

// verifyUnit generates all obligations of one function or lemma harness.
func verifyUnit1(l *Loader, pkgPath, key string, fixed map[string]Val, suffix string) (res *UnitResult) {
	res = &UnitResult{Name: pkgPath + ":" + key}
	defer func() {
		if suffix != "" {
			for _, o := range res.Obls {
				o.Name += suffix
				for _, s := range o.Subs {
					s.Name += suffix
				}
			}
		}
	}()
	defer func() {
		if r := recover(); r != nil {
			if ee, ok := r.(*EngineError); ok {
				res.Err = ee.Msg
				return
			}
			panic(r)
		}
	}()
	currentUnitPkg = pkgPath
	fn := l.findFunc(pkgPath, key)
	if fn == nil {
		res.Err = "contract-binding: function " + key + " not found in " + pkgPath
		return
	}
	res.Fn = fn
	res.Prefix = shortPkg(fn) + "." + funcKey(fn)
	c := l.contractFor(fn)
	if c == nil {
		// zero-annotation unit: safety sweep only
		c = &Contract{Key: key, Loops: map[int]*LoopSpec{}}
		for _, p := range fn.Params {
			c.Params = append(c.Params, p.Name())
		}
	}
	if c.Lemma {
		res.Kind = "lemma"
	} else {
		res.Kind = "func"
	}
	// reset per-unit global tables
	heap0 = map[string]*Term{}
	heapSorts = map[string]*Sort{}
	ex := NewExec(l, res.Name)
	res.Exec = ex
	ex.UseBodyOf = c.UseBody
	ex.UnitTimeout = c.Timeout
	ex.Partial = map[string]bool{}
	for _, k := range c.Partial {
		ex.Partial[k] = true
	}
	abstractRem = c.AbstractRem
	defer func() { abstractRem = false }()
	ex.Hidden = map[string]bool{}
	for _, h := range c.Hide {
		ex.Hidden[h] = true
	}
	if c.Bounded > 0 {
		ex.Bounded = true
		ex.BoundK = c.Bounded
		res.Bounded = true
	}
	if inlineAll {
		ex.Bounded = true
		if ex.BoundK == 0 {
			ex.BoundK = 6
		}
		res.Bounded = true
	}
	st := newState()
	var args []Val
	names := c.Params
	for i, p := range fn.Params {
		n := p.Name()
		if i < len(names) {
			n = names[i]
		}
		if fv, ok := fixed[n]; ok {
			args = append(args, fv)
			continue
		}
		v := freshVal("in_"+n, p.Type())
		args = append(args, v)
		ex.Inputs = append(ex.Inputs, NamedVal{Name: n, V: v})
		ex.assumeAll(st, typeInv(v, 0))
		ex.assumeHeapWF(st, v)
	}
	// a function literal verified as its own unit: its free variables are pointers to captured
	// variables of the enclosing function, here arbitrary allocated cells
	var unitBindings []Val
	for _, fv := range fn.FreeVars {
		v := freshVal("fv_"+fv.Name(), fv.Type())
		ex.assumeAll(st, typeInv(v, 0))
		ex.assumeHeapWF(st, v)
		if len(v.C) == 1 && v.C[0].Sort == IntSort {
			ex.assume(st, Neq(v.C[0], IntC(0)))
		}
		st.Regs[fv] = v
		unitBindings = append(unitBindings, v)
	}
	fx0 := &fnExec{ex: ex, fn: fn, c: c, args: args, callCount: map[string]int{}, prefix: shortPkg(fn) + "." + funcKey(fn)}
	env := &SpecEnv{ex: ex, fx: fx0, st: st, old: st, vars: map[string]Val{}, fn: fn}
	for i, n := range names {
		if i < len(args) {
			env.vars[n] = args[i]
		}
	}
	for i, p := range fn.Params {
		if _, ok := env.vars[p.Name()]; !ok {
			env.vars[p.Name()] = args[i]
		}
	}
	for _, cl := range c.Requires {
		ex.assume(st, env.evalBool(cl))
	}
	ex.setupHavocCalls(env, c, fn)
	ex.applyUses(c, fn, st)
	pre := &Obl{Name: fx0.prefix + "#cover.pre", Kind: "cover", Unit: ex.Unit, Assume: ex.Assume[:len(ex.Assume):len(ex.Assume)], Reach: True, ExpectSat: true}
	ex.Obls = append(ex.Obls, pre)
	entry := st.clone()
	// modifies locations are evaluated in the entry state
	var locs []Loc
	for _, m := range c.Modifies {
		locs = append(locs, env.evalLoc(m))
	}
	rv, out := ex.runFunc(fn, args, unitBindings, st, true, c)
	ex.checkKept(fn, fx0.prefix)
	if !ex.Bounded {
		checkAssertsFired(c)
		checkGhostsFired(c)
	}
	if !out.Reach.IsFalse() {
		fxp := &fnExec{ex: ex, fn: fn, c: c, args: args, callCount: map[string]int{}, prefix: fx0.prefix}
		env2 := &SpecEnv{ex: ex, fx: fxp, st: out, old: entry, vars: map[string]Val{}, fn: fn}
		for k, v := range env.vars {
			env2.vars[k] = v
		}
		bindResults(env2, c, fn, rv)
		// live return sites
		var live []int
		for i, e := range ex.TopRets {
			if !e.cond.IsFalse() {
				live = append(live, i)
			}
		}
		for i, cl := range c.Ensures {
			kind := "post"
			if c.Lemma {
				kind = "lemma"
			}
			t := env2.evalBool(cl)
			n0 := len(ex.Obls)
			fxp.oblige(fmt.Sprintf("%s.%d", kind, i+1), kind, out, t, fn.Pos(), cl.Src)
			if len(live) > 1 && len(ex.Obls) > n0 && !c.Lemma {
				// check the clause at every return site separately (smaller, more stable queries);
				// the named obligation holds iff all parts hold
				parent := ex.Obls[len(ex.Obls)-1]
				for _, ri := range live {
					rs0 := ex.TopRets[ri].st.clone()
					rs0.Reach = ex.TopRets[ri].cond
					parts := splitOnHeapIte(rs0, 3)
					for pi, rs := range parts {
						envr := &SpecEnv{ex: ex, fx: fxp, st: rs, old: entry, vars: map[string]Val{}, fn: fn}
						for k, v := range env.vars {
							envr.vars[k] = v
						}
						bindResults(envr, c, fn, ex.TopRetVals[ri])
						tr := envr.evalBool(cl)
						name := fmt.Sprintf("%s@ret%d", parent.Name, ri+1)
						if len(parts) > 1 {
							name = fmt.Sprintf("%s.p%d", name, pi+1)
						}
						sub := &Obl{Name: name, Kind: kind, Unit: ex.Unit, Assume: parent.Assume, Reach: rs.Reach, Goal: tr,
							Pos: parent.Pos, Src: cl.Src, Bounded: ex.Bounded, Inputs: ex.Inputs, Trivial: tr.IsTrue(), Secs: parent.Secs}
						if dv := debugEvals(envr); len(dv) > 0 {
							sub.Inputs = append(append([]NamedVal{}, ex.Inputs...), dv...)
						}
						parent.Subs = append(parent.Subs, sub)
					}
				}
			}
		}
		if len(c.Partitions) > 0 {
			// proof hint: split every postcondition by the case conditions (evaluated at entry)
			var parts [][]*Term
			for _, chain := range c.Partitions {
				var cells []*Term
				var negs []*Term
				for _, cc := range chain {
					t := env.evalBool(cc)
					cells = append(cells, And(append(append([]*Term{}, negs...), t)...))
					negs = append(negs, Not(t))
				}
				cells = append(cells, And(negs...))
				parts = append(parts, cells)
			}
			for _, o := range ex.Obls {
				if o.Kind != "post" && o.Kind != "lemma" {
					continue
				}
				base := o.Subs
				if len(base) == 0 {
					cp := *o
					cp.Name = o.Name + "@all"
					base = []*Obl{&cp}
				}
				for _, cells := range parts {
					var next []*Obl
					for _, b := range base {
						for pol, t := range cells {
							nb := *b
							nb.Assume = append(append([]*Term{}, b.Assume...), t)
							nb.Name = fmt.Sprintf("%s@case%d", b.Name, pol)
							nb.Trivial = b.Goal.IsTrue()
							next = append(next, &nb)
						}
					}
					base = next
				}
				o.Subs = base
			}
		}
		if !c.Lemma && !c.Pure && len(c.Modifies) == 0 && !c.Allocates && len(c.Ensures) > 0 {
			// callers assume that a callee without modifies/allocates returns only pre-existing references
			var refs []*Term
			var walk func(v Val)
			walk = func(v Val) {
				if v.Tuple != nil {
					for _, t := range v.Tuple {
						walk(t)
					}
					return
				}
				if v.T == nil || len(v.C) == 0 {
					return
				}
				switch u := v.T.Underlying().(type) {
				case *types.Pointer, *types.Slice, *types.Map:
					refs = append(refs, v.C[0])
				case *types.Struct:
					for i := 0; i < u.NumFields(); i++ {
						walk(fieldOf(v, i))
					}
				}
			}
			walk(rv)
			a0 := entry.alloc()
			var conj []*Term
			for _, r := range refs {
				conj = append(conj, Or(Eq(r, IntC(0)), Select(a0, r)))
			}
			if len(conj) > 0 {
				fxp.oblige("post.noalloc", "post", out, And(conj...), fn.Pos(), "results are nil or existed at entry (no modifies/allocates clause)")
			}
		}
		for i, m := range c.Preserves {
			loc := env.evalLoc(m)
			if loc.Kind != "ptr" {
				fail("preserves %s: only pointer locations are supported", m.Src)
			}
			fxp.oblige(fmt.Sprintf("preserves.%d", i+1), "post", out, fxp.valuesEqual(fxp.load(out, loc.Ptr), fxp.load(entry, loc.Ptr)), fn.Pos(), "unchanged: "+m.Src)
		}
		if !c.Lemma && !c.NoFrame && len(c.Ensures)+len(c.Modifies) > 0 {
			frameObligations(ex, fxp, entry, out, locs)
		}
		if c.HavocAll && !c.Trusted {
			// a verified function that callers abstract by `havocs except T.f`: it must leave the
			// excepted fields of every object unchanged
			for _, m := range c.HavocExcept {
				loc := env.evalLoc(m)
				if loc.Kind != "key" {
					fail("havocs except %s: only type-level fields T.f are supported", m.Src)
				}
				for _, k := range loc.Keys {
					fin, ok := out.Heap[k]
					if !ok {
						continue
					}
					ini := entry.heapGet(k, fin.Sort)
					if fin == ini {
						continue
					}
					r := Fresh("kept_r", IntSort)
					goal := Implies(Select(entry.alloc(), r), Eq(Select(fin, r), Select(ini, r)))
					fxp.oblige("kept."+k, "frame", out, goal, fn.Pos(), "field excepted from `havocs` is unchanged: "+m.Src)
				}
			}
		}
	}
	ex.Obls = append(ex.Obls, &Obl{Name: fx0.prefix + "#cover.exit", Kind: "cover", Unit: ex.Unit, Assume: ex.Assume[:len(ex.Assume):len(ex.Assume)], Reach: out.Reach, ExpectSat: true})
	res.Obls = ex.Obls
	return res
}

func bindResults(env *SpecEnv, c *Contract, fn *ssa.Function, rv Val) {
	res := fn.Signature.Results()
	names := c.Results
	if len(names) == 0 {
		for i := 0; i < res.Len(); i++ {
			if n := res.At(i).Name(); n != "" {
				names = append(names, n)
			} else {
				names = append(names, fmt.Sprintf("result%d", i))
			}
		}
	}
	switch res.Len() {
	case 0:
	case 1:
		if len(names) > 0 {
			env.vars[names[0]] = rv
		}
		env.vars["result"] = rv
	default:
		for i := 0; i < res.Len() && i < len(names); i++ {
			env.vars[names[i]] = rv.Tuple[i]
		}
	}
}

// frameObligations: every heap array changed by the unit is unchanged outside the declared modifies set
// for all objects that were allocated at entry.
func frameObligations(ex *Exec, fx *fnExec, entry, out *State, locs []Loc) {
	allowed := map[string][]*Term{} // key -> refs that may change
	wholeKey := map[string]bool{}
	var addObj func(t types.Type, ref *Term)
	addObj = func(t types.Type, ref *Term) {
		switch u := t.Underlying().(type) {
		case *types.Struct:
			sn := structName(t)
			for i := 0; i < u.NumFields(); i++ {
				ft := u.Field(i).Type()
				if isStruct(ft) || isArray(ft) {
					addObj(ft, ex.emb(sn, i, ref))
				} else {
					for k := range layout(ft) {
						allowed[fldKey(sn, i, k)] = append(allowed[fldKey(sn, i, k)], ref)
					}
				}
			}
		case *types.Array:
			for k := range layout(u.Elem()) {
				allowed[elemKey(u.Elem(), k)] = append(allowed[elemKey(u.Elem(), k)], ref)
			}
		default:
			for k := range layout(t) {
				allowed[cellKey(t, k)] = append(allowed[cellKey(t, k)], ref)
			}
		}
	}
	for _, loc := range locs {
		switch loc.Kind {
		case "key":
			for _, k := range loc.Keys {
				wholeKey[k] = true
			}
		case "elems":
			if loc.Exact {
				fail("modifies onlyelems/onlyspare: only for trusted contracts (the index range is not checked on the callee's side)")
			}
			et := loc.Slice.T.Underlying().(*types.Slice).Elem()
			for k := range layout(et) {
				allowed[elemKey(et, k)] = append(allowed[elemKey(et, k)], loc.Slice.C[0])
			}
		case "ptr":
			mp := ex.resolve(loc.Ptr)
			switch mp.Kind {
			case PField:
				for k := range layout(mp.Root) {
					allowed[fldKey(mp.SName, mp.Field, k)] = append(allowed[fldKey(mp.SName, mp.Field, k)], mp.Ref)
				}
			case PObj, PArr, PCell:
				addObj(mp.Root, mp.Ref)
			case PElem:
				for k := range layout(mp.Root) {
					allowed[elemKey(mp.Root, k)] = append(allowed[elemKey(mp.Root, k)], mp.Ref)
				}
			case PGlobal:
				for k := range layout(mp.Root) {
					wholeKey[globKey(mp.Global, k)] = true
				}
			}
		}
	}
	var keys []string
	for k := range out.Heap {
		keys = append(keys, k)
	}
	sort.Strings(keys)
	a0 := entry.alloc()
	for _, k := range keys {
		if k == allocKey || wholeKey[k] {
			continue
		}
		fin := out.Heap[k]
		ini := entry.heapGet(k, fin.Sort)
		if fin == ini {
			continue
		}
		var goal *Term
		if strings.HasPrefix(k, "G:") {
			goal = Eq(fin, ini)
		} else {
			r := Fresh("frame_r", IntSort)
			conds := []*Term{Select(a0, r)}
			for _, m := range allowed[k] {
				conds = append(conds, Neq(r, m))
			}
			goal = Implies(And(conds...), Eq(Select(fin, r), Select(ini, r)))
		}
		fx.oblige("frame."+k, "frame", out, goal, fx.fn.Pos(), "objects outside the modifies clause are unchanged in "+k)
	}
}

// ---- property checking ----

type PropSpec struct {
	ID       string   `json:"id"`
	Packages []string `json:"packages"`
	Units    []string `json:"units"`    // "<pkg path relative to module>:<key>"
	Thorough []string `json:"thorough"` // extra units for the thorough tier
	ThoroughUnits []string `json:"thorough_units"` // same (name used by the props.d files)
	Level    string   `json:"level"`    // proof | other
	Assumptions []string `json:"assumptions"`
	Explanation string `json:"explanation"`
}

func splitUnit(u string) (pkgPath, key string) {
	i := strings.Index(u, ":")
	p := u[:i]
	if p == "." || p == "" {
		return modPath, u[i+1:]
	}
	return modPath + "/" + p, u[i+1:]
}

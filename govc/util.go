package main

import "go/types"

// layoutSafe is layout for types that may be invalid (unused components of range tuples).
func layoutSafe(t types.Type) (ls []*Sort) {
	if t == nil {
		return nil
	}
	if b, ok := t.(*types.Basic); ok && b.Kind() == types.Invalid {
		return nil
	}
	defer func() {
		if recover() != nil {
			ls = nil
		}
	}()
	return layout(t)
}

package main

import "go/types"

// layoutSafe is layout for types that may be invalid (unused components of range tuples).
func layoutSafe(t types.Type) (ls []*Sort) {
	if t == nil {
		return nil
	}
	if b, ok := t.(*types.Basic); ok && b.Kind() == types.Invalid {
		return nil
	}
	defer func() {
		if recover() != nil {
			ls = nil
		}
	}()
	return layout(t)
}

// abstractRem: in units with the `abstractrem` clause the remainder operator is an
// uninterpreted function (only what `uses` lemmas state about it is known). This keeps 64-bit
// division circuits out of queries that reason about ring-buffer indices.
var abstractRem bool

func abstractRemTerm(a, b *Term, signed bool) *Term {
	name := "$urem"
	if signed {
		name = "$srem"
	}
	u := DeclUF(name+a.Sort.String(), a.Sort, a.Sort, b.Sort)
	return App(u, a, b)
}

func hasQuantifier(t *Term, seen map[*Term]bool) bool {
	if seen[t] {
		return false
	}
	seen[t] = true
	if t.Op == "forall" || t.Op == "exists" {
		return true
	}
	for _, a := range t.Args {
		if hasQuantifier(a, seen) {
			return true
		}
	}
	return false
}

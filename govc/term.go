package main

// SMT term DAG with hash-consing, light constant folding and an SMT-LIB 2 printer.

import (
	"fmt"
	"math/big"
	"sort"
	"strings"
)

type SortKind int

const (
	KBool SortKind = iota
	KBV
	KInt
	KArray
)

type Sort struct {
	Kind SortKind
	W    int
	Idx  *Sort
	Elem *Sort
	str  string
}

var sortTab = map[string]*Sort{}

func internSort(s *Sort) *Sort {
	if x, ok := sortTab[s.str]; ok {
		return x
	}
	sortTab[s.str] = s
	return s
}

var BoolSort = internSort(&Sort{Kind: KBool, str: "Bool"})
var IntSort = internSort(&Sort{Kind: KInt, str: "Int"})

func BVSort(w int) *Sort {
	return internSort(&Sort{Kind: KBV, W: w, str: fmt.Sprintf("(_ BitVec %d)", w)})
}
func ArraySort(i, e *Sort) *Sort {
	return internSort(&Sort{Kind: KArray, Idx: i, Elem: e, str: "(Array " + i.str + " " + e.str + ")"})
}
func (s *Sort) String() string { return s.str }

var BV64 = BVSort(64)
var BV8 = BVSort(8)

type Term struct {
	Op    string   // "const", "var", "app:<uf>", or SMT operator
	Args  []*Term
	Sort  *Sort
	Val   *big.Int // for const (bool: 0/1)
	Name  string   // var / uf name / quantifier bound var
	Bound []*Term  // for quantifiers: bound variables (Op "var")
	Pats  []*Term  // for quantifiers: patterns
	id    int
}

var termTab = map[string]*Term{}
var termCount int

func keyOf(op string, name string, sort *Sort, val *big.Int, args []*Term, bound []*Term, pats []*Term) string {
	var sb strings.Builder
	sb.WriteString(op)
	sb.WriteByte('|')
	sb.WriteString(name)
	sb.WriteByte('|')
	sb.WriteString(sort.str)
	if val != nil {
		sb.WriteByte('|')
		sb.WriteString(val.String())
	}
	for _, a := range args {
		fmt.Fprintf(&sb, ",%d", a.id)
	}
	if len(bound) > 0 {
		sb.WriteString("|b")
		for _, a := range bound {
			fmt.Fprintf(&sb, ",%d", a.id)
		}
	}
	if len(pats) > 0 {
		sb.WriteString("|p")
		for _, a := range pats {
			fmt.Fprintf(&sb, ",%d", a.id)
		}
	}
	return sb.String()
}

func mk(op, name string, sort *Sort, val *big.Int, args ...*Term) *Term {
	return mkq(op, name, sort, val, args, nil, nil)
}

func mkq(op, name string, sort *Sort, val *big.Int, args []*Term, bound []*Term, pats []*Term) *Term {
	k := keyOf(op, name, sort, val, args, bound, pats)
	if t, ok := termTab[k]; ok {
		return t
	}
	termCount++
	t := &Term{Op: op, Name: name, Sort: sort, Val: val, Args: args, Bound: bound, Pats: pats, id: termCount}
	termTab[k] = t
	return t
}

// ---- constructors ----

var True = mk("const", "", BoolSort, big.NewInt(1))
var False = mk("const", "", BoolSort, big.NewInt(0))

func BoolC(b bool) *Term {
	if b {
		return True
	}
	return False
}

func (t *Term) IsConst() bool { return t.Op == "const" }
func (t *Term) IsTrue() bool  { return t == True }
func (t *Term) IsFalse() bool { return t == False }

func maskW(v *big.Int, w int) *big.Int {
	m := new(big.Int).Lsh(big.NewInt(1), uint(w))
	r := new(big.Int).Mod(v, m)
	if r.Sign() < 0 {
		r.Add(r, m)
	}
	return r
}

func BVC(v *big.Int, w int) *Term { return mk("const", "", BVSort(w), maskW(v, w)) }
func BVI(v int64, w int) *Term    { return BVC(big.NewInt(v), w) }
func IntC(v int64) *Term          { return mk("const", "", IntSort, big.NewInt(v)) }
func IntCB(v *big.Int) *Term      { return mk("const", "", IntSort, new(big.Int).Set(v)) }

func Var(name string, s *Sort) *Term { return mk("var", name, s, nil) }

var freshCtr = map[string]int{}

func Fresh(prefix string, s *Sort) *Term {
	prefix = sanitize(prefix)
	freshCtr[prefix]++
	return Var(fmt.Sprintf("%s!%d", prefix, freshCtr[prefix]), s)
}

func sanitize(s string) string {
	var sb strings.Builder
	for _, r := range s {
		switch {
		case r >= 'a' && r <= 'z', r >= 'A' && r <= 'Z', r >= '0' && r <= '9', r == '_', r == '.', r == '$', r == '!':
			sb.WriteRune(r)
		default:
			sb.WriteByte('_')
		}
	}
	return sb.String()
}

// signed value of a bv const
func (t *Term) Signed() *big.Int {
	v := new(big.Int).Set(t.Val)
	if t.Sort.Kind == KBV && v.Bit(t.Sort.W-1) == 1 {
		v.Sub(v, new(big.Int).Lsh(big.NewInt(1), uint(t.Sort.W)))
	}
	return v
}

func Not(a *Term) *Term {
	if a.IsConst() {
		return BoolC(a.Val.Sign() == 0)
	}
	if a.Op == "not" {
		return a.Args[0]
	}
	return mk("not", "", BoolSort, nil, a)
}

func And(as ...*Term) *Term {
	var out []*Term
	seen := map[int]bool{}
	for _, a := range as {
		if a.IsFalse() {
			return False
		}
		if a.IsTrue() {
			continue
		}
		if a.Op == "and" {
			for _, b := range a.Args {
				if !seen[b.id] {
					seen[b.id] = true
					out = append(out, b)
				}
			}
			continue
		}
		if !seen[a.id] {
			seen[a.id] = true
			out = append(out, a)
		}
	}
	for _, a := range out {
		if a.Op == "not" && seen[a.Args[0].id] {
			return False
		}
	}
	if len(out) == 0 {
		return True
	}
	if len(out) == 1 {
		return out[0]
	}
	return mk("and", "", BoolSort, nil, out...)
}

func Or(as ...*Term) *Term {
	var out []*Term
	seen := map[int]bool{}
	for _, a := range as {
		if a.IsTrue() {
			return True
		}
		if a.IsFalse() {
			continue
		}
		if a.Op == "or" {
			for _, b := range a.Args {
				if !seen[b.id] {
					seen[b.id] = true
					out = append(out, b)
				}
			}
			continue
		}
		if !seen[a.id] {
			seen[a.id] = true
			out = append(out, a)
		}
	}
	for _, a := range out {
		if a.Op == "not" && seen[a.Args[0].id] {
			return True
		}
	}
	if len(out) == 0 {
		return False
	}
	if len(out) == 1 {
		return out[0]
	}
	return mk("or", "", BoolSort, nil, out...)
}

func Implies(a, b *Term) *Term {
	if a.IsTrue() {
		return b
	}
	if a.IsFalse() || b.IsTrue() {
		return True
	}
	if b.IsFalse() {
		return Not(a)
	}
	return mk("=>", "", BoolSort, nil, a, b)
}

func Ite(c, a, b *Term) *Term {
	if c.IsTrue() {
		return a
	}
	if c.IsFalse() {
		return b
	}
	if a == b {
		return a
	}
	if a.Sort != b.Sort {
		panic(fmt.Sprintf("ite sort mismatch %s vs %s", a.Sort, b.Sort))
	}
	if a.Sort == BoolSort {
		if a.IsTrue() && b.IsFalse() {
			return c
		}
		if a.IsFalse() && b.IsTrue() {
			return Not(c)
		}
		if a.IsTrue() {
			return Or(c, b)
		}
		if a.IsFalse() {
			return And(Not(c), b)
		}
		if b.IsTrue() {
			return Or(Not(c), a)
		}
		if b.IsFalse() {
			return And(c, a)
		}
	}
	return mk("ite", "", a.Sort, nil, c, a, b)
}

func Eq(a, b *Term) *Term {
	if a == b {
		return True
	}
	if a.Sort != b.Sort {
		panic(fmt.Sprintf("eq sort mismatch %s vs %s (%s, %s)", a.Sort, b.Sort, a, b))
	}
	if a.IsConst() && b.IsConst() {
		return BoolC(a.Val.Cmp(b.Val) == 0)
	}
	if a.Sort == BoolSort {
		if a.IsTrue() {
			return b
		}
		if b.IsTrue() {
			return a
		}
		if a.IsFalse() {
			return Not(b)
		}
		if b.IsFalse() {
			return Not(a)
		}
	}
	if a.id > b.id {
		a, b = b, a
	}
	return mk("=", "", BoolSort, nil, a, b)
}

func Neq(a, b *Term) *Term { return Not(Eq(a, b)) }

// ---- bit-vectors ----

func bvBin(op string, a, b *Term) *Term {
	if a.Sort != b.Sort || a.Sort.Kind != KBV {
		panic(fmt.Sprintf("%s sort mismatch %s vs %s", op, a.Sort, b.Sort))
	}
	w := a.Sort.W
	if a.IsConst() && b.IsConst() {
		x, y := a.Val, b.Val
		switch op {
		case "bvadd":
			return BVC(new(big.Int).Add(x, y), w)
		case "bvsub":
			return BVC(new(big.Int).Sub(x, y), w)
		case "bvmul":
			return BVC(new(big.Int).Mul(x, y), w)
		case "bvand":
			return BVC(new(big.Int).And(x, y), w)
		case "bvor":
			return BVC(new(big.Int).Or(x, y), w)
		case "bvxor":
			return BVC(new(big.Int).Xor(x, y), w)
		case "bvshl":
			if y.Cmp(big.NewInt(int64(w))) >= 0 {
				return BVI(0, w)
			}
			return BVC(new(big.Int).Lsh(x, uint(y.Int64())), w)
		case "bvlshr":
			if y.Cmp(big.NewInt(int64(w))) >= 0 {
				return BVI(0, w)
			}
			return BVC(new(big.Int).Rsh(x, uint(y.Int64())), w)
		case "bvashr":
			sx := a.Signed()
			if y.Cmp(big.NewInt(int64(w))) >= 0 {
				if sx.Sign() < 0 {
					return BVI(-1, w)
				}
				return BVI(0, w)
			}
			return BVC(new(big.Int).Rsh(sx, uint(y.Int64())), w)
		case "bvudiv":
			if y.Sign() != 0 {
				return BVC(new(big.Int).Div(x, y), w)
			}
		case "bvurem":
			if y.Sign() != 0 {
				return BVC(new(big.Int).Mod(x, y), w)
			}
		case "bvsdiv":
			if y.Sign() != 0 {
				return BVC(new(big.Int).Quo(a.Signed(), b.Signed()), w)
			}
		case "bvsrem":
			if y.Sign() != 0 {
				return BVC(new(big.Int).Rem(a.Signed(), b.Signed()), w)
			}
		}
	}
	zero := func(t *Term) bool { return t.IsConst() && t.Val.Sign() == 0 }
	switch op {
	case "bvadd":
		if zero(a) {
			return b
		}
		if zero(b) {
			return a
		}
		// (x + c1) + c2 => x + (c1+c2)
		if b.IsConst() && a.Op == "bvadd" && a.Args[1].IsConst() {
			return bvBin("bvadd", a.Args[0], BVC(new(big.Int).Add(a.Args[1].Val, b.Val), w))
		}
		if a.IsConst() && !b.IsConst() {
			a, b = b, a
		}
	case "bvsub":
		if zero(b) {
			return a
		}
		if a == b {
			return BVI(0, w)
		}
		if b.IsConst() {
			return bvBin("bvadd", a, BVC(new(big.Int).Neg(b.Val), w))
		}
		// (x + c) - x => c
		if a.Op == "bvadd" && a.Args[0] == b {
			return a.Args[1]
		}
	case "bvmul":
		if zero(a) || zero(b) {
			return BVI(0, w)
		}
		if a.IsConst() && a.Val.Cmp(big.NewInt(1)) == 0 {
			return b
		}
		if b.IsConst() && b.Val.Cmp(big.NewInt(1)) == 0 {
			return a
		}
	case "bvand":
		if zero(a) || zero(b) {
			return BVI(0, w)
		}
		if a == b {
			return a
		}
	case "bvor", "bvxor":
		if zero(a) {
			return b
		}
		if zero(b) {
			return a
		}
	case "bvshl", "bvlshr", "bvashr":
		if zero(b) {
			return a
		}
	}
	return mk(op, "", a.Sort, nil, a, b)
}

func BVAdd(a, b *Term) *Term  { return bvBin("bvadd", a, b) }
func BVSub(a, b *Term) *Term  { return bvBin("bvsub", a, b) }
func BVMul(a, b *Term) *Term  { return bvBin("bvmul", a, b) }
func BVAnd(a, b *Term) *Term  { return bvBin("bvand", a, b) }
func BVOr(a, b *Term) *Term   { return bvBin("bvor", a, b) }
func BVXor(a, b *Term) *Term  { return bvBin("bvxor", a, b) }
func BVShl(a, b *Term) *Term  { return bvBin("bvshl", a, b) }
func BVLshr(a, b *Term) *Term { return bvBin("bvlshr", a, b) }
func BVAshr(a, b *Term) *Term { return bvBin("bvashr", a, b) }
func BVUDiv(a, b *Term) *Term { return bvBin("bvudiv", a, b) }
func BVURem(a, b *Term) *Term { return bvBin("bvurem", a, b) }
func BVSDiv(a, b *Term) *Term { return bvBin("bvsdiv", a, b) }
func BVSRem(a, b *Term) *Term { return bvBin("bvsrem", a, b) }

func BVNot(a *Term) *Term {
	if a.IsConst() {
		return BVC(new(big.Int).Not(a.Val), a.Sort.W)
	}
	return mk("bvnot", "", a.Sort, nil, a)
}
func BVNeg(a *Term) *Term {
	if a.IsConst() {
		return BVC(new(big.Int).Neg(a.Val), a.Sort.W)
	}
	return mk("bvneg", "", a.Sort, nil, a)
}

func bvCmp(op string, a, b *Term) *Term {
	if a.Sort != b.Sort || a.Sort.Kind != KBV {
		panic(fmt.Sprintf("%s sort mismatch %s vs %s", op, a.Sort, b.Sort))
	}
	if a.IsConst() && b.IsConst() {
		switch op {
		case "bvult":
			return BoolC(a.Val.Cmp(b.Val) < 0)
		case "bvule":
			return BoolC(a.Val.Cmp(b.Val) <= 0)
		case "bvslt":
			return BoolC(a.Signed().Cmp(b.Signed()) < 0)
		case "bvsle":
			return BoolC(a.Signed().Cmp(b.Signed()) <= 0)
		}
	}
	if a == b {
		return BoolC(op == "bvule" || op == "bvsle")
	}
	return mk(op, "", BoolSort, nil, a, b)
}

func BVUlt(a, b *Term) *Term { return bvCmp("bvult", a, b) }
func BVUle(a, b *Term) *Term { return bvCmp("bvule", a, b) }
func BVSlt(a, b *Term) *Term { return bvCmp("bvslt", a, b) }
func BVSle(a, b *Term) *Term { return bvCmp("bvsle", a, b) }

func Extract(hi, lo int, a *Term) *Term {
	if lo == 0 && hi == a.Sort.W-1 {
		return a
	}
	if a.IsConst() {
		v := new(big.Int).Rsh(a.Val, uint(lo))
		return BVC(v, hi-lo+1)
	}
	// extract of zero_extend / sign_extend within the original
	if (a.Op == "zero_extend" || a.Op == "sign_extend") && hi < a.Args[0].Sort.W {
		return Extract(hi, lo, a.Args[0])
	}
	return mk("extract", fmt.Sprintf("%d:%d", hi, lo), BVSort(hi-lo+1), nil, a)
}

func ZeroExt(a *Term, w int) *Term {
	if a.Sort.W == w {
		return a
	}
	if a.IsConst() {
		return BVC(a.Val, w)
	}
	if a.Op == "zero_extend" {
		return ZeroExt(a.Args[0], w)
	}
	return mk("zero_extend", fmt.Sprint(w-a.Sort.W), BVSort(w), nil, a)
}

func SignExt(a *Term, w int) *Term {
	if a.Sort.W == w {
		return a
	}
	if a.IsConst() {
		return BVC(a.Signed(), w)
	}
	return mk("sign_extend", fmt.Sprint(w-a.Sort.W), BVSort(w), nil, a)
}

func Concat(a, b *Term) *Term {
	if a.IsConst() && b.IsConst() {
		v := new(big.Int).Lsh(a.Val, uint(b.Sort.W))
		v.Or(v, b.Val)
		return BVC(v, a.Sort.W+b.Sort.W)
	}
	return mk("concat", "", BVSort(a.Sort.W+b.Sort.W), nil, a, b)
}

// ---- ints (used for refs/tags only) ----

func IntAdd(a, b *Term) *Term { return mk("+", "", IntSort, nil, a, b) }
func IntLe(a, b *Term) *Term {
	if a.IsConst() && b.IsConst() {
		return BoolC(a.Val.Cmp(b.Val) <= 0)
	}
	return mk("<=", "", BoolSort, nil, a, b)
}
func IntLt(a, b *Term) *Term {
	if a.IsConst() && b.IsConst() {
		return BoolC(a.Val.Cmp(b.Val) < 0)
	}
	return mk("<", "", BoolSort, nil, a, b)
}

// ---- arrays ----

func Select(a, i *Term) *Term {
	if a.Sort.Kind != KArray {
		panic("select on non-array " + a.String())
	}
	if a.Sort.Idx != i.Sort {
		panic(fmt.Sprintf("select index sort %s vs %s", a.Sort.Idx, i.Sort))
	}
	// read-over-write with syntactically decidable indices
	cur := a
	for cur.Op == "store" {
		j := cur.Args[1]
		if j == i {
			return cur.Args[2]
		}
		if j.IsConst() && i.IsConst() {
			cur = cur.Args[0]
			continue
		}
		break
	}
	if cur.Op == "constarr" {
		return cur.Args[0]
	}
	if cur.Op == "var" && i.IsConst() {
		if s, ok := litBytes[cur]; ok && i.Val.IsInt64() && i.Val.Int64() >= 0 && i.Val.Int64() < int64(len(s)) {
			return BVI(int64(s[i.Val.Int64()]), 8)
		}
	}
	return mk("select", "", cur.Sort.Elem, nil, cur, i)
}

func Store(a, i, v *Term) *Term {
	if a.Sort.Kind != KArray || a.Sort.Idx != i.Sort || a.Sort.Elem != v.Sort {
		panic(fmt.Sprintf("store sort mismatch %s [%s] := %s", a.Sort, i.Sort, v.Sort))
	}
	if a.Op == "store" && a.Args[1] == i {
		return Store(a.Args[0], i, v)
	}
	return mk("store", "", a.Sort, nil, a, i, v)
}

// litBytes: contents of long string literals represented by named arrays (see stringLit).
var litBytes = map[*Term]string{}

func ConstArr(s *Sort, v *Term) *Term { return mk("constarr", "", s, nil, v) }

// ---- uninterpreted functions ----

type UF struct {
	Name string
	Args []*Sort
	Ret  *Sort
}

var ufTab = map[string]*UF{}

func DeclUF(name string, ret *Sort, args ...*Sort) *UF {
	name = sanitize(name)
	if u, ok := ufTab[name]; ok {
		return u
	}
	u := &UF{Name: name, Args: args, Ret: ret}
	ufTab[name] = u
	return u
}

func App(u *UF, args ...*Term) *Term {
	if len(args) != len(u.Args) {
		panic("uf arity " + u.Name)
	}
	for i, a := range args {
		if a.Sort != u.Args[i] {
			panic(fmt.Sprintf("uf %s arg %d sort %s vs %s", u.Name, i, a.Sort, u.Args[i]))
		}
	}
	if len(args) == 0 {
		return Var(u.Name, u.Ret)
	}
	return mk("app", u.Name, u.Ret, nil, args...)
}

// ---- quantifiers ----

func Forall(bound []*Term, body *Term, pats ...*Term) *Term {
	if body.IsTrue() {
		return True
	}
	// only array reads and function applications are legal patterns (a select over a store/ite chain
	// may have been simplified into a boolean combination)
	var ok []*Term
	for _, p := range pats {
		if p.Op == "select" || p.Op == "app" {
			ok = append(ok, p)
		}
	}
	pats = ok
	return mkq("forall", "", BoolSort, nil, []*Term{body}, bound, pats)
}
func Exists(bound []*Term, body *Term) *Term {
	if body.IsFalse() {
		return False
	}
	return mkq("exists", "", BoolSort, nil, []*Term{body}, bound, nil)
}

// ---- substitution ----

func Subst(t *Term, m map[*Term]*Term) *Term {
	if len(m) == 0 {
		return t
	}
	cache := map[*Term]*Term{}
	var rec func(t *Term) *Term
	rec = func(t *Term) *Term {
		if r, ok := m[t]; ok {
			return r
		}
		if len(t.Args) == 0 {
			return t
		}
		if r, ok := cache[t]; ok {
			return r
		}
		changed := false
		na := make([]*Term, len(t.Args))
		for i, a := range t.Args {
			na[i] = rec(a)
			if na[i] != a {
				changed = true
			}
		}
		var np []*Term
		for _, p := range t.Pats {
			q := rec(p)
			if q != p {
				changed = true
			}
			np = append(np, q)
		}
		r := t
		if changed {
			r = rebuild(t, na, np)
		}
		cache[t] = r
		return r
	}
	return rec(t)
}

func rebuild(t *Term, na []*Term, np []*Term) *Term {
	switch t.Op {
	case "not":
		return Not(na[0])
	case "and":
		return And(na...)
	case "or":
		return Or(na...)
	case "=>":
		return Implies(na[0], na[1])
	case "ite":
		return Ite(na[0], na[1], na[2])
	case "=":
		return Eq(na[0], na[1])
	case "select":
		return Select(na[0], na[1])
	case "store":
		return Store(na[0], na[1], na[2])
	case "bvadd", "bvsub", "bvmul", "bvand", "bvor", "bvxor", "bvshl", "bvlshr", "bvashr", "bvudiv", "bvurem", "bvsdiv", "bvsrem":
		return bvBin(t.Op, na[0], na[1])
	case "bvult", "bvule", "bvslt", "bvsle":
		return bvCmp(t.Op, na[0], na[1])
	case "bvnot":
		return BVNot(na[0])
	case "bvneg":
		return BVNeg(na[0])
	case "zero_extend":
		return ZeroExt(na[0], t.Sort.W)
	case "sign_extend":
		return SignExt(na[0], t.Sort.W)
	case "extract":
		var hi, lo int
		fmt.Sscanf(t.Name, "%d:%d", &hi, &lo)
		return Extract(hi, lo, na[0])
	case "concat":
		return Concat(na[0], na[1])
	}
	return mkq(t.Op, t.Name, t.Sort, t.Val, na, t.Bound, np)
}

// ---- printing ----

func (t *Term) String() string {
	var sb strings.Builder
	printTerm(&sb, t, nil)
	return sb.String()
}

func constStr(t *Term) string {
	switch t.Sort.Kind {
	case KBool:
		if t.Val.Sign() != 0 {
			return "true"
		}
		return "false"
	case KBV:
		if t.Sort.W%4 == 0 {
			return fmt.Sprintf("#x%0*s", t.Sort.W/4, t.Val.Text(16))
		}
		return fmt.Sprintf("#b%0*s", t.Sort.W, t.Val.Text(2))
	case KInt:
		if t.Val.Sign() < 0 {
			return "(- " + new(big.Int).Neg(t.Val).String() + ")"
		}
		return t.Val.String()
	}
	panic("const sort")
}

func quoteName(n string) string {
	return "|" + n + "|"
}

// printTerm prints t; sub-terms found in names are printed as their name.
func printTerm(sb *strings.Builder, t *Term, names map[*Term]string) {
	if n, ok := names[t]; ok {
		sb.WriteString(n)
		return
	}
	switch t.Op {
	case "const":
		sb.WriteString(constStr(t))
		return
	case "var":
		sb.WriteString(quoteName(t.Name))
		return
	case "app":
		sb.WriteString("(" + quoteName(t.Name))
	case "extract":
		var hi, lo int
		fmt.Sscanf(t.Name, "%d:%d", &hi, &lo)
		fmt.Fprintf(sb, "((_ extract %d %d)", hi, lo)
	case "zero_extend", "sign_extend":
		fmt.Fprintf(sb, "((_ %s %s)", t.Op, t.Name)
	case "constarr":
		fmt.Fprintf(sb, "((as const %s)", t.Sort)
	case "forall", "exists":
		sb.WriteString("(" + t.Op + " (")
		for _, b := range t.Bound {
			fmt.Fprintf(sb, "(%s %s)", quoteName(b.Name), b.Sort)
		}
		sb.WriteString(") ")
		var legal []*Term
		for _, p := range t.Pats {
			if (p.Op == "select" || p.Op == "app") && patternClean(p, map[*Term]bool{}) {
				legal = append(legal, p)
			}
		}
		if len(legal) > 0 {
			sb.WriteString("(! ")
		}
		printTerm(sb, t.Args[0], names)
		if len(legal) > 0 {
			for _, p := range legal {
				sb.WriteString(" :pattern (")
				printTerm(sb, p, names)
				sb.WriteString(")")
			}
			sb.WriteString(")")
		}
		sb.WriteString(")")
		return
	default:
		sb.WriteString("(" + t.Op)
	}
	for _, a := range t.Args {
		sb.WriteByte(' ')
		printTerm(sb, a, names)
	}
	sb.WriteByte(')')
}

// Script builds an SMT-LIB script for: assumptions |= goal  (asserts assumptions and (not goal)).
// If goal is nil, it is a satisfiability (cover) query of the assumptions.
func Script(assumptions []*Term, goal *Term, wantModel bool, modelTerms []*Term) string {
	var roots []*Term
	roots = append(roots, assumptions...)
	if goal != nil {
		roots = append(roots, goal)
	}
	roots = append(roots, modelTerms...)
	// collect
	refs := map[*Term]int{}
	var order []*Term
	vars := map[string]*Term{}
	ufs := map[string]*UF{}
	boundVars := map[*Term]bool{}
	// pre-pass: every variable bound by some quantifier of the script. Terms mentioning such a
	// variable are never hoisted into define-funs (whether the occurrence is bound or free), and the
	// variable is also declared as a constant, so that free occurrences (facts generated while a
	// quantified spec was being evaluated) are well-formed and refer to a separate global symbol.
	{
		seen := map[*Term]bool{}
		var pre func(t *Term)
		pre = func(t *Term) {
			if seen[t] {
				return
			}
			seen[t] = true
			for _, b := range t.Bound {
				boundVars[b] = true
			}
			for _, a := range t.Args {
				pre(a)
			}
			for _, a := range t.Pats {
				pre(a)
			}
		}
		for _, r := range roots {
			pre(r)
		}
		for b := range boundVars {
			vars[b.Name] = b
		}
	}
	underQ := map[*Term]bool{} // terms that contain bound variables (cannot be hoisted)
	var visit func(t *Term) bool
	visit = func(t *Term) bool {
		refs[t]++
		if refs[t] > 1 {
			return underQ[t]
		}
		hasBound := false
		if t.Op == "forall" || t.Op == "exists" {
			for _, b := range t.Bound {
				boundVars[b] = true
			}
		}
		if t.Op == "var" {
			if boundVars[t] {
				hasBound = true
			} else {
				vars[t.Name] = t
			}
		}
		if t.Op == "app" {
			ufs[t.Name] = ufTab[t.Name]
		}
		for _, a := range t.Args {
			if visit(a) {
				hasBound = true
			}
		}
		for _, a := range t.Pats {
			if visit(a) {
				hasBound = true
			}
		}
		if t.Op == "forall" || t.Op == "exists" {
			// a quantifier closes its own bound variables, but may contain outer ones; be conservative:
			// treat as containing bound vars only if some free bound var of an outer quantifier occurs.
			hasBound = containsOuterBound(t, boundVars)
		}
		underQ[t] = hasBound
		order = append(order, t)
		return hasBound
	}
	for _, r := range roots {
		visit(r)
	}
	var sb strings.Builder
	sb.WriteString("(set-option :produce-models true)\n(set-logic ALL)\n")
	var vnames []string
	for n := range vars {
		vnames = append(vnames, n)
	}
	sort.Strings(vnames)
	for _, n := range vnames {
		fmt.Fprintf(&sb, "(declare-fun %s () %s)\n", quoteName(n), vars[n].Sort)
	}
	var unames []string
	for n := range ufs {
		unames = append(unames, n)
	}
	sort.Strings(unames)
	for _, n := range unames {
		u := ufs[n]
		var as []string
		for _, a := range u.Args {
			as = append(as, a.String())
		}
		fmt.Fprintf(&sb, "(declare-fun %s (%s) %s)\n", quoteName(n), strings.Join(as, " "), u.Ret)
	}
	names := map[*Term]string{}
	for _, t := range order {
		if refs[t] > 1 && len(t.Args) > 0 && !underQ[t] {
			n := fmt.Sprintf("$d%d", t.id)
			var b strings.Builder
			printTerm(&b, t, names)
			fmt.Fprintf(&sb, "(define-fun %s () %s %s)\n", n, t.Sort, b.String())
			names[t] = n
		}
	}
	for _, a := range assumptions {
		var b strings.Builder
		printTerm(&b, a, names)
		fmt.Fprintf(&sb, "(assert %s)\n", b.String())
	}
	if goal != nil {
		var b strings.Builder
		printTerm(&b, goal, names)
		fmt.Fprintf(&sb, "(assert (not %s))\n", b.String())
	}
	sb.WriteString("(check-sat)\n")
	if wantModel && len(modelTerms) > 0 {
		sb.WriteString("(get-value (")
		for _, m := range modelTerms {
			var b strings.Builder
			printTerm(&b, m, names)
			sb.WriteString(b.String() + " ")
		}
		sb.WriteString("))\n")
	}
	return sb.String()
}

func containsOuterBound(q *Term, allBound map[*Term]bool) bool {
	own := map[*Term]bool{}
	seen := map[*Term]bool{}
	found := false
	var rec func(t *Term)
	rec = func(t *Term) {
		if found || seen[t] {
			return
		}
		seen[t] = true
		if t.Op == "forall" || t.Op == "exists" {
			for _, b := range t.Bound {
				own[b] = true
			}
		}
		if t.Op == "var" && allBound[t] && !own[t] {
			found = true
			return
		}
		for _, a := range t.Args {
			rec(a)
		}
	}
	rec(q)
	return found
}

// FreeSyms returns the set of free variable and UF names of t.
func FreeSyms(t *Term, out map[string]bool, seen map[*Term]bool) {
	if seen[t] {
		return
	}
	seen[t] = true
	if t.Op == "var" {
		out[t.Name] = true
	}
	if t.Op == "app" {
		out["uf:"+t.Name] = true
	}
	for _, a := range t.Args {
		FreeSyms(a, out, seen)
	}
	if t.Op == "forall" || t.Op == "exists" {
		// bound variables have unique names: they are not free symbols of the quantified term
		for _, b := range t.Bound {
			delete(out, b.Name)
		}
	}
}

// patternClean: no boolean connective, ite or quantifier occurs inside a pattern term.
func patternClean(t *Term, seen map[*Term]bool) bool {
	if seen[t] {
		return true
	}
	seen[t] = true
	switch t.Op {
	case "not", "and", "or", "=>", "ite", "=", "forall", "exists", "distinct":
		return false
	}
	if t.Sort == BoolSort && t.Op != "select" && t.Op != "app" && t.Op != "var" && t.Op != "const" {
		return false
	}
	for _, a := range t.Args {
		if !patternClean(a, seen) {
			return false
		}
	}
	return true
}

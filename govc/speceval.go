package main

// Evaluation of spec expressions into symbolic values.

import (
	"sort"
	"fmt"
	"go/constant"
	"go/token"
	"go/types"
	"math/big"
	"strings"

	"golang.org/x/tools/go/ssa"
)

type SpecEnv struct {
	ex        *Exec
	fx        *fnExec
	st        *State
	old       *State
	loopEntry *State
	iterSt    *State // state at the start of the current loop iteration (loop step clauses)
	vars      map[string]Val
	fn        *ssa.Function
	lp        *Loop
	locals    bool // identifiers may denote locals of fx.fn (loop invariants, call-site assertions)
	inOld     bool
	localSt   *State // inside old(): the state that supplies the values of locals
	clause    string
	at        token.Pos // position the clause is evaluated at (call-site assertions): resolves shadowed locals
}

func (fx *fnExec) specEnv(st, old *State, lp *Loop) *SpecEnv {
	return &SpecEnv{ex: fx.ex, fx: fx, st: st, old: old, vars: map[string]Val{}, fn: fx.fn, lp: lp, locals: true}
}

func (e *SpecEnv) fail(format string, a ...interface{}) {
	fail("spec %q: %s", e.clause, fmt.Sprintf(format, a...))
}

func (e *SpecEnv) evalBool(cl Clause) *Term {
	e.clause = cl.Src + " (" + cl.Line + ")"
	v := e.eval(cl.Expr)
	if v.Const != nil || len(v.C) != 1 || v.C[0].Sort != BoolSort {
		e.fail("clause is not boolean")
	}
	return v.C[0]
}

func (e *SpecEnv) pkg() *ssa.Package {
	if e.fn == nil {
		return nil
	}
	if e.fn.Pkg != nil {
		return e.fn.Pkg
	}
	if o := e.fn.Origin(); o != nil {
		return o.Pkg
	}
	return nil
}

func (e *SpecEnv) lookupType(name string) types.Type {
	if strings.HasPrefix(name, "*") {
		t := e.lookupType(name[1:])
		if t == nil {
			return nil
		}
		return types.NewPointer(t)
	}
	if strings.HasPrefix(name, "[]") {
		t := e.lookupType(name[2:])
		if t == nil {
			return nil
		}
		return types.NewSlice(t)
	}
	if i := strings.Index(name, "."); i >= 0 {
		if p := e.pkg(); p != nil {
			for _, imp := range p.Pkg.Imports() {
				if imp.Name() == name[:i] {
					if tn, ok := imp.Scope().Lookup(name[i+1:]).(*types.TypeName); ok {
						return tn.Type()
					}
				}
			}
		}
		// not an import of the contract's package (a contract on a dependency speaking about a type of
		// its caller): any loaded package of that name
		var paths []string
		for path := range e.ex.L.Pkgs {
			paths = append(paths, path)
		}
		sort.Strings(paths)
		for _, path := range paths {
			lp := e.ex.L.Pkgs[path]
			if lp.Types != nil && lp.Types.Name() == name[:i] {
				if tn, ok := lp.Types.Scope().Lookup(name[i+1:]).(*types.TypeName); ok {
					return tn.Type()
				}
			}
		}
		return nil
	}
	if tn, ok := types.Universe.Lookup(name).(*types.TypeName); ok {
		return tn.Type()
	}
	if p := e.pkg(); p != nil {
		if tn, ok := p.Pkg.Scope().Lookup(name).(*types.TypeName); ok {
			return tn.Type()
		}
	}
	return nil
}

func (e *SpecEnv) typeOfExpr(x *SExpr) types.Type {
	switch x.Kind {
	case "ident":
		return e.lookupType(x.Name)
	case "unary":
		if x.Op == "*" {
			t := e.typeOfExpr(x.Args[0])
			if t != nil {
				return types.NewPointer(t)
			}
		}
	case "select":
		if x.Args[0].Kind == "ident" {
			return e.lookupType(x.Args[0].Name + "." + x.Name)
		}
	}
	return nil
}

// coerce gives an untyped constant the type t.
func (e *SpecEnv) coerce(v Val, t types.Type) Val {
	if v.Const == nil {
		return v
	}
	switch u := t.Underlying().(type) {
	case *types.Basic:
		if u.Info()&types.IsInteger != 0 {
			w, _ := intWidth(u)
			return scalar(t, BVC(v.Const, w))
		}
	}
	e.fail("cannot use constant %s as %v", v.Const, t)
	return Val{}
}

func (e *SpecEnv) localAlloc(name string) *ssa.Alloc {
	if e.fx == nil {
		return nil
	}
	var cands []*ssa.Alloc
	for _, b := range e.fn.Blocks {
		for _, in := range b.Instrs {
			if a, ok := in.(*ssa.Alloc); ok && a.Comment == name {
				cands = append(cands, a)
			}
		}
	}
	if len(cands) == 0 {
		return nil
	}
	if len(cands) == 1 {
		return cands[0]
	}
	// shadowing: choose the declaration visible at the position of the call site
	if e.at.IsValid() {
		if p := e.pkg(); p != nil {
			if inner := p.Pkg.Scope().Innermost(e.at); inner != nil {
				if _, obj := inner.LookupParent(name, e.at); obj != nil {
					for _, a := range cands {
						if a.Pos() == obj.Pos() {
							return a
						}
					}
				}
			}
		}
	}
	// shadowing: choose the declaration visible at the loop position
	if e.lp != nil {
		if p := e.pkg(); p != nil {
			if inner := p.Pkg.Scope().Innermost(e.lp.Pos); inner != nil {
				if _, obj := inner.LookupParent(name, e.lp.Pos); obj != nil {
					for _, a := range cands {
						if a.Pos() == obj.Pos() {
							return a
						}
					}
				}
			}
		}
	}
	// a variable declared inside the loop body (e.g. `sent := ...` as the first statement)
	if e.lp != nil {
		var inLoop []*ssa.Alloc
		for _, a := range cands {
			if b := a.Block(); b != nil && e.lp.Blocks[b] {
				inLoop = append(inLoop, a)
			}
		}
		if len(inLoop) == 1 {
			return inLoop[0]
		}
	}
	e.fail("identifier %s is ambiguous (%d declarations)", name, len(cands))
	return nil
}

func (e *SpecEnv) ident(name string) Val {
	if v, ok := e.vars[name]; ok {
		return v
	}
	switch name {
	case "true":
		return boolVal(True)
	case "false":
		return boolVal(False)
	case "nil":
		return Val{T: types.Typ[types.UntypedNil], C: []*Term{IntC(0)}}
	case "rangeindex":
		// hidden index variable of the enclosing range-over-slice/array loop: the index of the last
		// completed iteration (-1 before the first) at the loop head
		if e.lp != nil {
			for _, in := range e.lp.Header.Instrs {
				if ld, ok := in.(*ssa.UnOp); ok {
					if a, ok := ld.X.(*ssa.Alloc); ok && a.Comment == "rangeindex" {
						if v, ok := e.st.Allocs[a]; ok {
							return v
						}
					}
				}
			}
		}
		e.fail("rangeindex used outside a range loop over a slice, array or integer")
	case "rangepos":
		// byte position of the range-over-string iterator of the enclosing loop
		if e.lp != nil {
			for b := range e.lp.Blocks {
				for _, in := range b.Instrs {
					if nx, ok := in.(*ssa.Next); ok {
						if it, ok := e.st.Regs[nx.Iter]; ok && it.Tuple != nil {
							return it.Tuple[1]
						}
					}
				}
			}
		}
		e.fail("rangepos used outside a range-over-string loop")
	}
	if e.locals && e.fx != nil {
		// parameters in old(): entry values
		if e.inOld {
			for i, p := range e.fn.Params {
				if p.Name() == name {
					return e.fx.args[i]
				}
			}
		}
		if a := e.localAlloc(name); a != nil {
			st := e.st
			if e.inOld && e.localSt != nil {
				isParam := false
				for _, p := range e.fn.Params {
					if p.Name() == name {
						isParam = true
					}
				}
				if !isParam {
					st = e.localSt
				}
			}
			if !isHeapAlloc(a) {
				if v, ok := st.Allocs[a]; ok {
					return v
				}
				// not yet initialised in this state (e.g. parameter alloc at entry)
				for i, p := range e.fn.Params {
					if p.Name() == name {
						return e.fx.args[i]
					}
				}
				return zeroVal(a.Type().(*types.Pointer).Elem())
			}
			rv, ok := st.Regs[a]
			if !ok {
				for i, p := range e.fn.Params {
					if p.Name() == name {
						return e.fx.args[i]
					}
				}
				e.fail("local %s not allocated in this state", name)
			}
			return e.ex.loadObj(st, a.Type().(*types.Pointer).Elem(), rv.C[0])
		}
		for i, p := range e.fn.Params {
			if p.Name() == name {
				return e.fx.args[i]
			}
		}
		// captured variables of closures
		for _, fv := range e.fn.FreeVars {
			if fv.Name() == name {
				pv, ok := e.st.Regs[fv]
				if !ok {
					e.fail("free variable %s has no binding", name)
				}
				mp := e.fx.ptrOf(pv, e.st, token.NoPos, false)
				return e.fx.load(e.st, mp)
			}
		}
	}
	if !(e.locals && e.fx != nil) && e.fn != nil {
		// captured variables of a closure unit in its requires/ensures (evaluated without locals)
		for _, fv := range e.fn.FreeVars {
			if fv.Name() == name {
				if pv, ok := e.st.Regs[fv]; ok {
					fxx := e.fx
					if fxx == nil {
						fxx = &fnExec{ex: e.ex, fn: e.fn}
					}
					mp := fxx.ptrOf(pv, e.st, token.NoPos, false)
					return fxx.load(e.st, mp)
				}
			}
		}
	}
	if p := e.pkg(); p != nil {
		obj := p.Pkg.Scope().Lookup(name)
		switch o := obj.(type) {
		case *types.Const:
			return e.constObj(o)
		case *types.Var:
			if g, ok := p.Members[name].(*ssa.Global); ok {
				fxx := e.fx
				if fxx == nil {
					fxx = &fnExec{ex: e.ex}
				}
				return fxx.globalVal(e.st, g)
			}
		}
	}
	e.fail("unknown identifier %s", name)
	return Val{}
}

func (e *SpecEnv) constObj(o *types.Const) Val {
	cv := o.Val()
	if b, ok := o.Type().Underlying().(*types.Basic); ok && b.Info()&types.IsUntyped != 0 {
		if cv.Kind() == constant.Int {
			bi, ok := constant.Val(cv).(*big.Int)
			if !ok {
				i64, _ := constant.Int64Val(cv)
				bi = big.NewInt(i64)
			}
			return Val{Const: new(big.Int).Set(bi)}
		}
		if cv.Kind() == constant.Bool {
			return boolVal(BoolC(constant.BoolVal(cv)))
		}
		if cv.Kind() == constant.String {
			return stringLit(tString, constant.StringVal(cv))
		}
	}
	return constVal(o.Type(), cv)
}

func (e *SpecEnv) fieldIndex(t types.Type, name string) (int, bool) {
	st, ok := t.Underlying().(*types.Struct)
	if !ok {
		return 0, false
	}
	for i := 0; i < st.NumFields(); i++ {
		if st.Field(i).Name() == name {
			return i, true
		}
	}
	return 0, false
}

// embeddedPath finds a promoted field through embedded structs (one or two levels).
func embeddedPath(t types.Type, name string, depth int) []int {
	st, ok := t.Underlying().(*types.Struct)
	if !ok || depth > 3 {
		return nil
	}
	for i := 0; i < st.NumFields(); i++ {
		if st.Field(i).Name() == name {
			return []int{i}
		}
	}
	for i := 0; i < st.NumFields(); i++ {
		f := st.Field(i)
		if !f.Embedded() {
			continue
		}
		ft := f.Type()
		if _, isPtr := ft.Underlying().(*types.Pointer); isPtr {
			continue
		}
		if p := embeddedPath(ft, name, depth+1); p != nil {
			return append([]int{i}, p...)
		}
	}
	return nil
}

func (e *SpecEnv) sel(x Val, name string) Val {
	if x.Const != nil {
		e.fail("selector on constant")
	}
	if x.Ptr != nil {
		mp := x.Ptr
		rootT := navigateType(mp)
		path := embeddedPath(rootT, name, 0)
		if path == nil {
			e.fail("no field %s in %v", name, rootT)
		}
		for _, i := range path {
			mp = mp.extend(Step{Field: i})
		}
		return e.fx.load(e.st, mp)
	}
	switch u := x.T.Underlying().(type) {
	case *types.Pointer:
		path := embeddedPath(u.Elem(), name, 0)
		if path == nil {
			e.fail("no field %s in %v", name, u.Elem())
		}
		mp := e.ex.objPtr(u.Elem(), x.C[0])
		for _, i := range path {
			mp = mp.extend(Step{Field: i})
		}
		fxx := e.fx
		if fxx == nil {
			fxx = &fnExec{ex: e.ex}
		}
		lv := fxx.load(e.st, mp)
		// values read from memory are well-typed (slice headers sane, lengths non-negative)
		e.ex.assumeAll(e.st, typeInv(lv, 0))
		return lv
	case *types.Struct:
		path := embeddedPath(x.T, name, 0)
		if path == nil {
			e.fail("no field %s in %v", name, x.T)
		}
		v := x
		for _, i := range path {
			v = fieldOf(v, i)
		}
		return v
	}
	e.fail("selector .%s on %v", name, x.T)
	return Val{}
}

func navigateType(mp *MetaPtr) types.Type {
	t := mp.Root
	for _, s := range mp.Path {
		if s.Field >= 0 {
			t = t.Underlying().(*types.Struct).Field(s.Field).Type()
		} else {
			t = t.Underlying().(*types.Array).Elem()
		}
	}
	return t
}

func (e *SpecEnv) index(x Val, i Val) Val {
	var idx *Term
	if _, isMap := x.T.Underlying().(*types.Map); !isMap {
		i = e.coerce(i, tInt)
		idx = toBV64(i)
	}
	switch u := x.T.Underlying().(type) {
	case *types.Slice:
		return e.ex.loadElem(e.st, u.Elem(), x.C[0], BVAdd(x.C[1], idx))
	case *types.Basic:
		if u.Info()&types.IsString != 0 {
			return scalar(tUint8, Select(x.C[0], BVAdd(x.C[1], idx)))
		}
	case *types.Array:
		return indexOf(x, idx)
	case *types.Pointer:
		if at, ok := u.Elem().Underlying().(*types.Array); ok {
			return e.ex.loadElem(e.st, at.Elem(), x.C[0], idx)
		}
	case *types.Map:
		mt := u
		ks, vs := mapSorts(mt)
		var key *Term
		kv := e.coerce(i, mt.Key())
		{
			// the same key encoding as Lookup/MapUpdate in the code (strings by identity of content,
			// struct keys by their uninterpreted encoding)
			fxx := e.fx
			if fxx == nil {
				fxx = &fnExec{ex: e.ex, fn: e.fn}
			}
			key = fxx.mapKeyTerm(kv)
		}
		// Go semantics: the zero value for an absent key (and for a nil map)
		has := And(Neq(x.C[0], IntC(0)), Select(Select(e.st.heapGet(mapHasKey(mt), ArraySort(IntSort, ArraySort(ks, BoolSort))), x.C[0]), key))
		c := make([]*Term, len(vs))
		for k, s := range vs {
			c[k] = Ite(has, Select(Select(e.st.heapGet(mapValKey(mt, k), ArraySort(IntSort, ArraySort(ks, s))), x.C[0]), key), zeroTerm(s))
		}
		return Val{T: mt.Elem(), C: c}
	}
	e.fail("index on %v", x.T)
	return Val{}
}

func (e *SpecEnv) eval(x *SExpr) Val {
	switch x.Kind {
	case "lit":
		return Val{Const: x.Lit}
	case "str":
		return stringLit(tString, x.Str)
	case "ident":
		return e.ident(x.Name)
	case "unary":
		if x.Op == "*" {
			v := e.eval(x.Args[0])
			mp := e.fx.ptrOf(v, e.st, token.NoPos, false)
			return e.fx.load(e.st, mp)
		}
		if x.Op == "&" {
			// address of a location: only locations with a first-class reference (struct objects,
			// embedded structs and arrays) can be named
			loc := e.evalLoc(Clause{Expr: x.Args[0], Src: e.clause, Line: ""})
			mp := e.ex.resolve(loc.Ptr)
			if (mp.Kind == PObj || mp.Kind == PArr || mp.Kind == PCell) && len(mp.Path) == 0 {
				return Val{T: types.NewPointer(mp.Root), C: []*Term{mp.Ref}}
			}
			// interior location (array element, field of an element): a meta-level pointer
			return Val{T: types.NewPointer(navigateType(mp)), Ptr: mp}
		}
		v := e.eval(x.Args[0])
		switch x.Op {
		case "!":
			return boolVal(Not(v.S()))
		case "-":
			if v.Const != nil {
				return Val{Const: new(big.Int).Neg(v.Const)}
			}
			return scalar(v.T, BVNeg(v.S()))
		case "^":
			if v.Const != nil {
				return Val{Const: new(big.Int).Not(v.Const)}
			}
			return scalar(v.T, BVNot(v.S()))
		case "+":
			return v
		}
	case "binary":
		return e.binary(x)
	case "select":
		// package-qualified constant?
		if x.Args[0].Kind == "ident" {
			if _, isVar := e.vars[x.Args[0].Name]; !isVar {
				if p := e.pkg(); p != nil {
					for _, imp := range p.Pkg.Imports() {
						if imp.Name() == x.Args[0].Name && (e.fx == nil || e.localAlloc(x.Args[0].Name) == nil) {
							if c, ok := imp.Scope().Lookup(x.Name).(*types.Const); ok {
								return e.constObj(c)
							}
							if _, ok := imp.Scope().Lookup(x.Name).(*types.Var); ok {
								if sp := e.ex.L.SPkgs[imp.Path()]; sp != nil {
									if g, ok := sp.Members[x.Name].(*ssa.Global); ok {
										fxx := e.fx
										if fxx == nil {
											fxx = &fnExec{ex: e.ex}
										}
										return fxx.globalVal(e.st, g)
									}
								}
							}
						}
					}
				}
			}
		}
		return e.sel(e.eval(x.Args[0]), x.Name)
	case "index":
		return e.index(e.eval(x.Args[0]), e.eval(x.Args[1]))
	case "slice":
		v := e.eval(x.Args[0])
		lo := BVI(0, 64)
		if x.Args[1] != nil {
			lo = toBV64(e.coerce(e.eval(x.Args[1]), tInt))
		}
		switch v.T.Underlying().(type) {
		case *types.Slice:
			hi := v.C[2]
			if x.Args[2] != nil {
				hi = toBV64(e.coerce(e.eval(x.Args[2]), tInt))
			}
			return Val{T: v.T, C: []*Term{v.C[0], BVAdd(v.C[1], lo), BVSub(hi, lo), BVSub(v.C[3], lo)}}
		case *types.Basic:
			hi := v.C[2]
			if x.Args[2] != nil {
				hi = toBV64(e.coerce(e.eval(x.Args[2]), tInt))
			}
			return Val{T: v.T, C: []*Term{v.C[0], BVAdd(v.C[1], lo), BVSub(hi, lo)}}
		}
		e.fail("slice expression on %v", v.T)
	case "call":
		return e.call(x)
	case "typeassert":
		v := e.eval(x.Args[0])
		t := e.lookupType(x.Name)
		if t == nil {
			e.fail("unknown type %s", x.Name)
		}
		return e.ex.unbox(t, v.C[1])
	case "forall", "exists":
		saved := map[string]*Val{}
		var bound []*Term
		var guards []*Term
		for _, b := range x.Bound {
			t := e.lookupType(b.Type)
			if t == nil {
				e.fail("unknown type %s in quantifier", b.Type)
			}
			ls := layout(t)
			if len(ls) != 1 {
				e.fail("quantified variable of non-scalar type %s", b.Type)
			}
			bv := Fresh("q_"+b.Name, ls[0])
			bound = append(bound, bv)
			if old, ok := e.vars[b.Name]; ok {
				o := old
				saved[b.Name] = &o
			} else {
				saved[b.Name] = nil
			}
			e.vars[b.Name] = scalar(t, bv)
		}
		specBound = append(specBound, bound...)
		body := e.eval(x.Args[0]).S()
		specBound = specBound[:len(specBound)-len(bound)]
		for n, s := range saved {
			if s == nil {
				delete(e.vars, n)
			} else {
				e.vars[n] = *s
			}
		}
		_ = guards
		if x.Kind == "forall" {
			return boolVal(Forall(bound, body))
		}
		return boolVal(Exists(bound, body))
	}
	e.fail("cannot evaluate %s expression", x.Kind)
	return Val{}
}

func (e *SpecEnv) binary(x *SExpr) Val {
	switch x.Op {
	case "&&":
		return boolVal(And(e.eval(x.Args[0]).S(), e.eval(x.Args[1]).S()))
	case "||":
		return boolVal(Or(e.eval(x.Args[0]).S(), e.eval(x.Args[1]).S()))
	case "==>":
		return boolVal(Implies(e.eval(x.Args[0]).S(), e.eval(x.Args[1]).S()))
	case "<==>":
		return boolVal(Eq(e.eval(x.Args[0]).S(), e.eval(x.Args[1]).S()))
	}
	a := e.eval(x.Args[0])
	b := e.eval(x.Args[1])
	if a.Const != nil && b.Const != nil {
		r := new(big.Int)
		switch x.Op {
		case "+":
			return Val{Const: r.Add(a.Const, b.Const)}
		case "-":
			return Val{Const: r.Sub(a.Const, b.Const)}
		case "*":
			return Val{Const: r.Mul(a.Const, b.Const)}
		case "/":
			return Val{Const: r.Quo(a.Const, b.Const)}
		case "%":
			return Val{Const: r.Rem(a.Const, b.Const)}
		case "<<":
			return Val{Const: r.Lsh(a.Const, uint(b.Const.Int64()))}
		case ">>":
			return Val{Const: r.Rsh(a.Const, uint(b.Const.Int64()))}
		case "&":
			return Val{Const: r.And(a.Const, b.Const)}
		case "|":
			return Val{Const: r.Or(a.Const, b.Const)}
		case "^":
			return Val{Const: r.Xor(a.Const, b.Const)}
		case "&^":
			return Val{Const: r.AndNot(a.Const, b.Const)}
		case "==":
			return boolVal(BoolC(a.Const.Cmp(b.Const) == 0))
		case "!=":
			return boolVal(BoolC(a.Const.Cmp(b.Const) != 0))
		case "<":
			return boolVal(BoolC(a.Const.Cmp(b.Const) < 0))
		case "<=":
			return boolVal(BoolC(a.Const.Cmp(b.Const) <= 0))
		case ">":
			return boolVal(BoolC(a.Const.Cmp(b.Const) > 0))
		case ">=":
			return boolVal(BoolC(a.Const.Cmp(b.Const) >= 0))
		}
	}
	tok, ok := opTokens[x.Op]
	if !ok {
		e.fail("operator %s", x.Op)
	}
	if x.Op == "<<" || x.Op == ">>" {
		if a.Const != nil {
			a = e.coerce(a, tInt)
		}
		if b.Const != nil {
			b = e.coerce(b, types.Typ[types.Uint])
		}
	} else {
		if a.Const != nil {
			if isNilLike(b) && a.Const.Sign() == 0 {
				a = zeroVal(b.T)
			} else {
				a = e.coerce(a, b.T)
			}
		}
		if b.Const != nil {
			b = e.coerce(b, a.T)
		}
	}
	fxx := e.fx
	if fxx == nil {
		fxx = &fnExec{ex: e.ex}
	}
	// nil comparisons for pointers/slices/interfaces
	if isUntypedNil(b) {
		b = zeroVal(a.T)
	} else if isUntypedNil(a) {
		a = zeroVal(b.T)
	}
	rt := a.T
	switch x.Op {
	case "==", "!=", "<", "<=", ">", ">=":
		rt = tBool
	}
	// integer operands of different width in specs: require equal widths
	if isInteger(a.T) && isInteger(b.T) && x.Op != "<<" && x.Op != ">>" && a.S().Sort != b.S().Sort {
		e.fail("operands of %s have different integer types %v and %v (convert explicitly)", x.Op, a.T, b.T)
	}
	// dummy state for panic obligations inside spec expressions: they are not generated
	dummy := newState()
	dummy.Reach = False
	if x.Op == "/" || x.Op == "%" || x.Op == "<<" || x.Op == ">>" {
		// evaluate without emitting obligations
		return specIntOp(tok, a, b, rt)
	}
	return fxx.binop(tok, a, b, rt, dummy, token.NoPos)
}

func isNilLike(v Val) bool {
	if v.T == nil {
		return false
	}
	switch v.T.Underlying().(type) {
	case *types.Pointer, *types.Slice, *types.Map, *types.Interface, *types.Chan, *types.Signature:
		return true
	}
	return false
}

func isUntypedNil(v Val) bool {
	if v.T == nil {
		return false
	}
	b, ok := v.T.Underlying().(*types.Basic)
	return ok && b.Kind() == types.UntypedNil
}

func specIntOp(op token.Token, x, y Val, rt types.Type) Val {
	a, b := x.S(), y.S()
	w := a.Sort.W
	signed := isSigned(x.T)
	switch op {
	case token.QUO:
		if signed {
			return scalar(rt, BVSDiv(a, b))
		}
		return scalar(rt, BVUDiv(a, b))
	case token.REM:
		if abstractRem {
			return scalar(rt, abstractRemTerm(a, b, signed))
		}
		if signed {
			return scalar(rt, BVSRem(a, b))
		}
		return scalar(rt, BVURem(a, b))
	case token.SHL, token.SHR:
		var cnt *Term
		var over *Term = False
		if b.Sort.W > w {
			over = BVUle(BVI(int64(w), b.Sort.W), b)
			cnt = Extract(w-1, 0, b)
		} else {
			cnt = ZeroExt(b, w)
		}
		switch {
		case op == token.SHL:
			return scalar(rt, Ite(over, BVI(0, w), BVShl(a, cnt)))
		case signed:
			return scalar(rt, Ite(over, BVAshr(a, BVI(int64(w-1), w)), BVAshr(a, cnt)))
		default:
			return scalar(rt, Ite(over, BVI(0, w), BVLshr(a, cnt)))
		}
	}
	panic("specIntOp")
}

var opTokens = map[string]token.Token{
	"+": token.ADD, "-": token.SUB, "*": token.MUL, "/": token.QUO, "%": token.REM,
	"&": token.AND, "|": token.OR, "^": token.XOR, "&^": token.AND_NOT, "<<": token.SHL, ">>": token.SHR,
	"==": token.EQL, "!=": token.NEQ, "<": token.LSS, "<=": token.LEQ, ">": token.GTR, ">=": token.GEQ,
}

func (e *SpecEnv) call(x *SExpr) Val {
	f := x.Args[0]
	args := x.Args[1:]
	if f.Kind == "ident" {
		switch f.Name {
		case "old":
			if e.old == nil {
				e.fail("old() not available here")
			}
			saved, savedIn, savedLocal := e.st, e.inOld, e.localSt
			if !e.inOld {
				e.localSt = e.st // locals keep their current values inside old(); only memory is old
			}
			e.st, e.inOld = e.old, true
			v := e.eval(args[0])
			e.st, e.inOld, e.localSt = saved, savedIn, savedLocal
			return v
		case "atiter":
			if e.iterSt == nil {
				e.fail("atiter() outside a loop step clause")
			}
			{
				saved, savedIn, savedLocal := e.st, e.inOld, e.localSt
				if !e.inOld {
					e.localSt = e.st // locals keep their current values; only memory is that of the iteration start
				}
				e.st, e.inOld = e.iterSt, true
				v := e.eval(args[0])
				e.st, e.inOld, e.localSt = saved, savedIn, savedLocal
				return v
			}
		case "iterstart":
			// the value of an expression (locals included) at the start of the current iteration
			if e.iterSt == nil {
				e.fail("iterstart() outside a loop step clause")
			}
			{
				saved, savedIn, savedLocal := e.st, e.inOld, e.localSt
				e.st, e.localSt = e.iterSt, nil
				v := e.eval(args[0])
				e.st, e.inOld, e.localSt = saved, savedIn, savedLocal
				return v
			}
		case "atloop":
			if e.loopEntry == nil {
				e.fail("atloop() outside a loop invariant")
			}
			saved := e.st
			e.st = e.loopEntry
			v := e.eval(args[0])
			e.st = saved
			return v
		case "loopfresh":
			// loopfresh(x): the object x refers to (now) was allocated after the loop was entered
			if e.loopEntry == nil {
				e.fail("loopfresh() outside a loop invariant")
			}
			v := e.eval(args[0])
			return boolVal(And(Not(Select(e.loopEntry.alloc(), v.C[0])), Select(e.st.alloc(), v.C[0])))
		case "len":
			v := e.eval(args[0])
			switch u := v.T.Underlying().(type) {
			case *types.Slice, *types.Basic:
				return intVal(v.C[2])
			case *types.Array:
				return Val{Const: big.NewInt(u.Len())}
			case *types.Map:
				return intVal(e.ex.mapLen(e.st, u, v.C[0]))
			}
			e.fail("len of %v", v.T)
		case "cap":
			v := e.eval(args[0])
			return intVal(v.C[3])
		case "min", "max":
			a, b := e.eval(args[0]), e.eval(args[1])
			if a.Const != nil {
				a = e.coerce(a, b.T)
			}
			if b.Const != nil {
				b = e.coerce(b, a.T)
			}
			var lt *Term
			if isSigned(a.T) {
				lt = BVSlt(a.S(), b.S())
			} else {
				lt = BVUlt(a.S(), b.S())
			}
			if f.Name == "min" {
				return scalar(a.T, Ite(lt, a.S(), b.S()))
			}
			return scalar(a.T, Ite(lt, b.S(), a.S()))
		case "ite":
			c := e.eval(args[0]).S()
			a, b := e.eval(args[1]), e.eval(args[2])
			if a.Const != nil && b.Const == nil {
				a = e.coerce(a, b.T)
			}
			if b.Const != nil && a.Const == nil {
				b = e.coerce(b, a.T)
			}
			if a.Const != nil {
				a, b = e.coerce(a, tInt), e.coerce(b, tInt)
			}
			nc := make([]*Term, len(a.C))
			for k := range a.C {
				nc[k] = Ite(c, a.C[k], b.C[k])
			}
			return Val{T: a.T, C: nc}
		case "fresh":
			v := e.eval(args[0])
			return boolVal(And(Not(Select(e.old.alloc(), v.C[0])), Select(e.st.alloc(), v.C[0])))
		case "allocated":
			v := e.eval(args[0])
			return boolVal(Select(e.st.alloc(), v.C[0]))
		case "mapvalsle":
			// mapvalsle(m, c): every value stored in map m is <= c (unsigned); nil map: true
			m, c := e.eval(args[0]), e.eval(args[1])
			mt, ok := m.T.Underlying().(*types.Map)
			if !ok {
				fail("mapvalsle: %v is not a map", m.T)
			}
			ks, vs := mapSorts(mt)
			if len(vs) != 1 || vs[0].Kind != KBV {
				fail("mapvalsle: map element type %v not an integer", mt.Elem())
			}
			k := Fresh("q_mk", ks)
			has := Select(Select(e.st.heapGet(mapHasKey(mt), ArraySort(IntSort, ArraySort(ks, BoolSort))), m.C[0]), k)
			raw := Select(Select(e.st.heapGet(mapValKey(mt, 0), ArraySort(IntSort, ArraySort(ks, vs[0]))), m.C[0]), k)
			if c.Const != nil {
				c = e.coerce(c, mt.Elem())
			}
			bound := c.C[0]
			if bound.Sort.W > vs[0].W {
				raw = ZeroExt(raw, bound.Sort.W)
			} else if bound.Sort.W < vs[0].W {
				bound = ZeroExt(bound, vs[0].W)
			}
			return boolVal(Forall([]*Term{k}, Implies(has, BVUle(raw, bound))))
		case "sameheap":
			// sameheap(T.f, U.g, ...): every heap key touched so far (fields, slice element rows, cells,
			// maps, globals) has the value it had in the old state, except the listed type-level fields
			// (the allocation set may grow). In a callee's postcondition "old" is the state before the call.
			{
				except := map[string]bool{}
				for _, a := range args {
					loc := e.evalLoc(Clause{Expr: a, Src: "sameheap exception", Line: e.clause})
					if loc.Kind != "key" {
						e.fail("sameheap: exceptions must be type-level fields T.f")
					}
					for _, k := range loc.Keys {
						except[k] = true
					}
				}
				keys := map[string]bool{}
				for k := range e.st.Heap {
					keys[k] = true
				}
				for k := range e.old.Heap {
					keys[k] = true
				}
				var ks []string
				for k := range keys {
					if k == allocKey || except[k] {
						continue
					}
					ks = append(ks, k)
				}
				sort.Strings(ks)
				var conj []*Term
				for _, k := range ks {
					srt := heapSorts[k]
					if srt == nil {
						continue
					}
					a, b := e.st.heapGet(k, srt), e.old.heapGet(k, srt)
					if a != b {
						conj = append(conj, Eq(a, b))
					}
				}
				if e.st.Epoch != e.old.Epoch {
					e.fail("sameheap: a whole-heap havoc lies between the two states")
				}
				return boolVal(And(conj...))
			}
		case "unchanged":
			cur := e.eval(args[0])
			saved, savedIn := e.st, e.inOld
			e.st, e.inOld = e.old, true
			o := e.eval(args[0])
			e.st, e.inOld = saved, savedIn
			fxx := e.fx
			if fxx == nil {
				fxx = &fnExec{ex: e.ex}
			}
			return boolVal(fxx.valuesEqual(cur, o))
		case "seqeq":
			// seqeq(a, b): same length and pointwise equal elements (slices or strings)
			a, b := e.eval(args[0]), e.eval(args[1])
			i := Fresh("q_k", BV64)
			iv := scalar(tInt, i)
			fxx := e.fx
			if fxx == nil {
				fxx = &fnExec{ex: e.ex}
			}
			la, lb := a.C[2], b.C[2]
			body := Implies(And(BVSle(BVI(0, 64), i), BVSlt(i, la)), fxx.valuesEqual(e.index(a, iv), e.index(b, iv)))
			return boolVal(And(Eq(la, lb), Forall([]*Term{i}, body)))
		case "isdeclared":
			// isdeclared(x): x equals one of the package-level constants declared with x's type
			return boolVal(isDeclared(e.eval(args[0])))
		case "samebase":
			// samebase(r, x): r and x are views of the same underlying byte sequence (substring / subslice)
			a, b := e.eval(args[0]), e.eval(args[1])
			return boolVal(Eq(a.C[0], b.C[0]))
		case "startoff":
			// startoff(x): absolute position of the first element of view x in its backing sequence
			a := e.eval(args[0])
			return intVal(a.C[1])
		case "endoff":
			// endoff(x): absolute position just past the last element of view x
			a := e.eval(args[0])
			return intVal(BVAdd(a.C[1], a.C[2]))
		case "suboff":
			// suboff(r, x): offset of view r inside view x (meaningful when samebase(r, x))
			a, b := e.eval(args[0]), e.eval(args[1])
			return intVal(BVSub(a.C[1], b.C[1]))
		case "hastype":
			v := e.eval(args[0])
			t := e.typeOfExpr(args[1])
			if t == nil {
				e.fail("hastype: unknown type")
			}
			return boolVal(Eq(v.C[0], e.ex.typeTag(t)))
		case "ghost":
			n := args[0].Name
			g, ok := e.st.Ghost[n]
			if !ok {
				g = BVI(0, 64)
			}
			return intVal(g)
		case "string":
			v := e.eval(args[0])
			if sl, ok := v.T.Underlying().(*types.Slice); ok {
				row := Select(e.st.heapGet(elemKey(sl.Elem(), 0), ArraySort(IntSort, StrArr)), v.C[0])
				return Val{T: tString, C: []*Term{row, v.C[1], v.C[2]}}
			}
			return v
		}
		// conversion?
		if _, isVar := e.vars[f.Name]; !isVar {
			if t := e.lookupType(f.Name); t != nil && len(args) == 1 {
				return e.conv(e.eval(args[0]), t)
			}
		}
		// spec function / package function
		if p := e.pkg(); p != nil {
			if fn, ok := p.Members[f.Name].(*ssa.Function); ok {
				return e.callFunc(fn, args)
			}
		}
		e.fail("unknown function %s", f.Name)
	}
	if t := e.typeOfExpr(f); t != nil && len(args) == 1 {
		return e.conv(e.eval(args[0]), t)
	}
	// method-style call on a value: x.m(args) where m is a method with a pure contract or small body
	if f.Kind == "select" {
		recv := e.eval(f.Args[0])
		if recv.T != nil {
			ms := e.ex.L.Prog.MethodSets.MethodSet(recv.T)
			if sel := ms.Lookup(e.pkg().Pkg, f.Name); sel != nil {
				fn := e.ex.L.Prog.MethodValue(sel)
				if fn != nil {
					vals := []Val{recv}
					for i, a := range args {
						v := e.eval(a)
						if v.Const != nil {
							v = e.coerce(v, fn.Signature.Params().At(i).Type())
						}
						vals = append(vals, v)
					}
					e.ex.specDepth++
					v, _ := e.ex.runFunc(fn, vals, nil, e.st.clone(), false, e.ex.L.contractFor(fn))
					e.ex.specDepth--
					return v
				}
			}
		}
	}
	e.fail("cannot call %v", f.Kind)
	return Val{}
}

func (e *SpecEnv) callFunc(fn *ssa.Function, args []*SExpr) Val {
	var vals []Val
	for i, a := range args {
		v := e.eval(a)
		if v.Const != nil {
			v = e.coerce(v, fn.Signature.Params().At(i).Type())
		}
		if isUntypedNil(v) {
			v = zeroVal(fn.Signature.Params().At(i).Type())
		}
		vals = append(vals, v)
	}
	c := e.ex.L.contractFor(fn)
	fxx := e.fx
	if fxx == nil {
		fxx = &fnExec{ex: e.ex, fn: e.fn}
	}
	if c != nil && c.Pure && c.Recursive {
		return fxx.callRecursivePure(fn, c, vals, e.st)
	}
	if c != nil && c.Function && !c.Pure && !c.Inline {
		// a trusted deterministic function used in a spec: the uninterpreted application itself
		sig := fn.Signature.Results()
		var rvals []Val
		for i := 0; i < sig.Len(); i++ {
			shape := freshVal(fn.Name()+"_spec", sig.At(i).Type())
			rvals = append(rvals, fxx.functionalResult(fn, vals, i, shape, e.st))
		}
		if len(rvals) == 1 {
			return rvals[0]
		}
		return Val{T: sig, Tuple: rvals}
	}
	if c == nil || !(c.Pure || c.Inline) {
		e.fail("function %s used in a spec is not marked pure", fn.Name())
	}
	st := e.st.clone()
	// obligations raised while evaluating a spec function are well-definedness side conditions; they
	// are neither generated nor assumed (spec functions are total by convention: indexing outside
	// bounds yields arbitrary values)
	e.ex.specDepth++
	v, _ := e.ex.runFunc(fn, vals, nil, st, false, c)
	e.ex.specDepth--
	return v
}

func (e *SpecEnv) conv(v Val, t types.Type) Val {
	if v.Const != nil {
		return e.coerce(v, t)
	}
	if isInteger(v.T) && isInteger(t) {
		return scalar(t, convInt(v.S(), v.T, t))
	}
	fxx := e.fx
	if fxx == nil {
		fxx = &fnExec{ex: e.ex}
	}
	dummy := e.st.clone()
	return fxx.convert(v, t, dummy, token.NoPos)
}

// evalLoc interprets a modifies target.
func (e *SpecEnv) evalLoc(cl Clause) Loc {
	e.clause = cl.Src + " (" + cl.Line + ")"
	x := cl.Expr
	switch x.Kind {
	case "select":
		// T.f with T a struct type name: field f of every object of type T (type-level frame)
		if x.Args[0].Kind == "ident" {
			if _, isVar := e.vars[x.Args[0].Name]; !isVar && (e.fx == nil || !e.locals || e.localAlloc(x.Args[0].Name) == nil) {
				if t := e.lookupType(x.Args[0].Name); t != nil && isStruct(t) {
					path := embeddedPath(t, x.Name, 0)
					if len(path) != 1 {
						e.fail("type-level modifies target %s: no direct field %s", cl.Src, x.Name)
					}
					ft := t.Underlying().(*types.Struct).Field(path[0]).Type()
					var keys []string
					if isStruct(ft) || isArray(ft) {
						e.fail("type-level modifies target %s: field of struct or array type", cl.Src)
					}
					for k, srt := range layout(ft) {
						key := fldKey(structName(t), path[0], k)
						keys = append(keys, key)
						keySortHint[key] = ArraySort(IntSort, srt)
					}
					return Loc{Kind: "key", Keys: keys}
				}
			}
		}
		base := e.eval(x.Args[0])
		var mp *MetaPtr
		var guard *Term
		if base.Ptr != nil {
			mp = base.Ptr
		} else if pt, ok := base.T.Underlying().(*types.Pointer); ok {
			mp = e.ex.objPtr(pt.Elem(), base.C[0])
			guard = Neq(base.C[0], IntC(0))
		} else if _, ok := base.T.Underlying().(*types.Struct); ok && (x.Args[0].Kind == "select" || x.Args[0].Kind == "index") {
			// field of an embedded struct reached through a pointer: p.a.b
			inner := e.evalLoc(Clause{Expr: x.Args[0], Src: cl.Src, Line: cl.Line})
			mp = inner.Ptr
			guard = inner.Guard
		} else {
			e.fail("modifies target %s: base is not a pointer", cl.Src)
		}
		path := embeddedPath(navigateType(mp), x.Name, 0)
		if path == nil {
			e.fail("modifies target: no field %s", x.Name)
		}
		for _, i := range path {
			mp = mp.extend(Step{Field: i})
		}
		return Loc{Kind: "ptr", Ptr: mp, Guard: guard}
	case "index":
		// element of an array location (array field of a struct, element of an array of structs)
		inner := e.evalLoc(Clause{Expr: x.Args[0], Src: cl.Src, Line: cl.Line})
		if inner.Kind != "ptr" {
			e.fail("unsupported indexed location %s", cl.Src)
		}
		if _, ok := navigateType(inner.Ptr).Underlying().(*types.Array); !ok {
			e.fail("indexed location %s is not an array", cl.Src)
		}
		idx := toBV64(e.coerce(e.eval(x.Args[1]), tInt))
		return Loc{Kind: "ptr", Ptr: inner.Ptr.extend(Step{Field: -1, Index: idx}), Guard: inner.Guard}
	case "unary":
		if x.Op == "*" {
			base := e.eval(x.Args[0])
			if base.Ptr != nil {
				return Loc{Kind: "ptr", Ptr: base.Ptr}
			}
			pt := base.T.Underlying().(*types.Pointer)
			return Loc{Kind: "ptr", Ptr: e.ex.objPtr(pt.Elem(), base.C[0]), Guard: Neq(base.C[0], IntC(0))}
		}
	case "call":
		if x.Args[0].Kind == "ident" && (x.Args[0].Name == "elems" || x.Args[0].Name == "spare" || x.Args[0].Name == "onlyelems" || x.Args[0].Name == "onlyspare") {
			n := x.Args[0].Name
			return Loc{Kind: "elems", Slice: e.eval(x.Args[1]), Spare: n == "spare" || n == "onlyspare", Exact: n == "onlyelems" || n == "onlyspare"}
		}
		if x.Args[0].Kind == "ident" && x.Args[0].Name == "mapof" {
			// contents of every map of m's type (type-level frame: maps are not framed per object)
			m := e.eval(x.Args[1])
			mt, ok := m.T.Underlying().(*types.Map)
			if !ok {
				e.fail("mapof: %s is not a map", cl.Src)
			}
			ks, vs := mapSorts(mt)
			keys := []string{mapHasKey(mt)}
			keySortHint[mapHasKey(mt)] = ArraySort(IntSort, ArraySort(ks, BoolSort))
			for k, srt := range vs {
				keys = append(keys, mapValKey(mt, k))
				keySortHint[mapValKey(mt, k)] = ArraySort(IntSort, ArraySort(ks, srt))
			}
			return Loc{Kind: "key", Keys: keys}
		}
	case "ident":
		if p := e.pkg(); p != nil {
			if g, ok := p.Members[x.Name].(*ssa.Global); ok {
				return Loc{Kind: "ptr", Ptr: &MetaPtr{Kind: PGlobal, Global: g, Root: g.Type().(*types.Pointer).Elem()}}
			}
		}
		// a local pointer variable: modifies *p
		v := e.ident(x.Name)
		if pt, ok := v.T.Underlying().(*types.Pointer); ok {
			return Loc{Kind: "ptr", Ptr: e.ex.objPtr(pt.Elem(), v.C[0])}
		}
	}
	e.fail("unsupported modifies target %s", cl.Src)
	return Loc{}
}

package main

import "fmt"

// `ghost g += e at loop K`: the counter advances each time loop K is entered from outside (at the
// loop cut, before the entry check of the invariants). With `ensures ghost(g) == old(ghost(g)) + 1`
// a contract states that every path through the function reaches the loop exactly once: a return
// that skips the loop fails the postcondition.
func (fx *fnExec) loopEntryGhosts(lp *Loop, st *State) {
	if fx.c == nil {
		return
	}
	want := fmt.Sprintf("loop:%d", lp.Ordinal)
	for gi, g := range fx.c.Ghost {
		if g.Callee != want {
			continue
		}
		noteGhostFired(fx.c, gi)
		env := fx.specEnv(st, fx.entry, nil)
		dt := toBV64(env.coerce(env.eval(g.Delta.Expr), tInt))
		cur, ok := st.Ghost[g.Name]
		if !ok {
			cur = BVI(0, 64)
		}
		st.Ghost[g.Name] = fx.ghostAdd(st, cur, dt)
	}
}

// loopContainsLoopHook: the clause callee names a loop nested strictly inside lp, so the counter
// advances once per iteration of lp in which the inner loop is reached.
func (fx *fnExec) loopContainsLoopHook(lp *Loop, callee string) bool {
	var k int
	if n, _ := fmt.Sscanf(callee, "loop:%d", &k); n != 1 {
		return false
	}
	for _, in := range fx.loops {
		if in.Ordinal == k && in != lp && lp.Blocks[in.Header] {
			return true
		}
	}
	return false
}

package main

import (
	"go/types"
)

// len(m) of a map: an uninterpreted function of the map's presence row (the set of keys), so that
// two reads of the length of an unchanged map agree; non-negative; an empty presence row has
// length 0; inserting a new key adds one, deleting a present key removes one.

func mapLenTerm(st *State, mt *types.Map, ref *Term) (*Term, *Term) {
	ks, _ := mapSorts(mt)
	hk := mapHasKey(mt)
	hs := ArraySort(IntSort, ArraySort(ks, BoolSort))
	row := Select(st.heapGet(hk, hs), ref)
	u := DeclUF("maplen:"+typeName(mt), BV64, ArraySort(ks, BoolSort))
	return App(u, row), row
}

func (ex *Exec) mapLen(st *State, mt *types.Map, ref *Term) *Term {
	n, row := mapLenTerm(st, mt, ref)
	if !ex.embSeen[n] {
		ex.embSeen[n] = true
		ks, _ := mapSorts(mt)
		empty := ConstArr(ArraySort(ks, BoolSort), False)
		ex.Assume = append(ex.Assume, closeOverSpecBound(And(BVSle(BVI(0, 64), n), BVSle(n, maxLen), Implies(Eq(row, empty), Eq(n, BVI(0, 64))))))
	}
	return n
}

// mapLenStep relates the lengths before and after a single-key update of a presence row.
func (ex *Exec) mapLenStep(st *State, mt *types.Map, oldRow, newRow, key *Term, insert bool) {
	ks, _ := mapSorts(mt)
	u := DeclUF("maplen:"+typeName(mt), BV64, ArraySort(ks, BoolSort))
	o, n := App(u, oldRow), App(u, newRow)
	had := Select(oldRow, key)
	var rel *Term
	if insert {
		rel = Eq(n, BVAdd(o, Ite(had, BVI(0, 64), BVI(1, 64))))
	} else {
		rel = Eq(n, BVSub(o, Ite(had, BVI(1, 64), BVI(0, 64))))
	}
	ex.assume(st, And(rel, BVSle(BVI(0, 64), o), BVSle(BVI(0, 64), n)))
}

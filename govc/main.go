package main

import (
	"encoding/json"
	"fmt"
	"os"
	"path/filepath"
	"sort"
	"strings"
	"time"
)

func usage() {
	fmt.Fprintln(os.Stderr, "usage: govc check <ID> [--tier quick|thorough] | unit <pkg:key> [-v] | dump <pkg:key> | list")
	os.Exit(2)
}

func main() {
	if len(os.Args) < 2 {
		usage()
	}
	switch os.Args[1] {
	case "unit":
		cmdUnit(os.Args[2:])
	case "dump":
		cmdDump(os.Args[2:])
	case "check":
		os.Exit(cmdCheck(os.Args[2:]))
	case "list":
		props := loadProps()
		var ids []string
		for id := range props {
			ids = append(ids, id)
		}
		sort.Strings(ids)
		for _, id := range ids {
			fmt.Println(id, len(props[id].Units), "units")
		}
	default:
		usage()
	}
}

func loadProps() map[string]*PropSpec {
	b, err := os.ReadFile("/verif/props.json")
	if err != nil {
		fmt.Fprintln(os.Stderr, err)
		os.Exit(2)
	}
	var list []*PropSpec
	if err := json.Unmarshal(b, &list); err != nil {
		fmt.Fprintln(os.Stderr, "props.json:", err)
		os.Exit(2)
	}
	m := map[string]*PropSpec{}
	for _, p := range list {
		m[p.ID] = p
	}
	// one file per property under props.d (same schema, a single object per file)
	extra, _ := filepath.Glob("/verif/props.d/*.json")
	sort.Strings(extra)
	for _, f := range extra {
		b, err := os.ReadFile(f)
		if err != nil {
			continue
		}
		var p PropSpec
		if err := json.Unmarshal(b, &p); err != nil {
			fmt.Fprintln(os.Stderr, f+":", err)
			os.Exit(2)
		}
		m[p.ID] = &p
	}
	return m
}

func cmdDump(args []string) {
	pkgPath, key := splitUnit(args[0])
	l, err := Load("./" + strings.TrimPrefix(strings.TrimPrefix(pkgPath, modPath), "/"))
	if err != nil {
		fmt.Fprintln(os.Stderr, err)
		os.Exit(2)
	}
	fn := l.findFunc(pkgPath, key)
	if fn == nil {
		fmt.Fprintln(os.Stderr, "not found")
		os.Exit(2)
	}
	fn.WriteTo(os.Stdout)
	for _, lp := range findLoops(fn) {
		fmt.Printf("loop %d: header block %d at %s\n", lp.Ordinal, lp.Header.Index, l.posStr(lp.Pos))
	}
}

func cmdUnit(args []string) {
	verbose := false
	secs := 10
	var units []string
	for _, a := range args {
		if a == "-v" {
			verbose = true
		} else if a == "-inline" {
			inlineAll = true
		} else if strings.HasPrefix(a, "-t=") {
			fmt.Sscanf(a, "-t=%d", &secs)
		} else {
			units = append(units, a)
		}
	}
	pkgs := map[string]bool{}
	for _, u := range units {
		p, _ := splitUnit(u)
		pkgs["./"+strings.TrimPrefix(strings.TrimPrefix(p, modPath), "/")] = true
	}
	var pats []string
	for p := range pkgs {
		pats = append(pats, p)
	}
	t0 := time.Now()
	l, err := Load(pats...)
	if err != nil {
		fmt.Fprintln(os.Stderr, err)
		os.Exit(2)
	}
	fmt.Printf("loaded in %.1fs\n", time.Since(t0).Seconds())
	bad := 0
	for _, u := range units {
		p, k := splitUnit(u)
		t1 := time.Now()
		res := verifyUnit(l, p, k)
		if res.Err != "" {
			fmt.Printf("UNIT %s: ENGINE ERROR: %s\n", u, res.Err)
			bad++
			continue
		}
		gen := time.Since(t1)
		outDir := fmt.Sprintf("/verif/out/unit.%d", os.Getpid())
		if d := os.Getenv("GOVC_OUT"); d != "" {
			outDir = d // development aid: keep the query files of this run in a directory of one's own
		}
		discharge(res.Obls, outDir, secs, 6)
		n, ok := 0, 0
		for _, o := range res.Obls {
			if o.ExpectSat {
				if o.Status != "cover-ok" {
					fmt.Printf("  COVER %s: %s %s\n", o.Name, o.Status, o.Output)
					if o.Status == "cover-vacuous" {
						bad++
					}
				}
				continue
			}
			n++
			if o.Status == "discharged" {
				ok++
				if verbose {
					fmt.Printf("  ok   %-60s %s %dms\n", o.Name, o.Solver, o.Ms)
				}
			} else {
				bad++
				status := o.Status
				if o.Candidate {
					status = "unknown+candidate-model"
				}
				fmt.Printf("  FAIL %-60s %s [%s] %s %q\n", o.Name, status, o.Solver, o.Pos, o.Src)
				if o.Status == "failed" {
					var ks []string
					for k := range o.Model {
						ks = append(ks, k)
					}
					sort.Strings(ks)
					for _, k := range ks {
						fmt.Printf("         %s = %s\n", k, o.Model[k])
					}
				} else {
					fmt.Printf("         %s\n", firstLines(o.Output, 4))
				}
			}
		}
		fmt.Printf("UNIT %s: %d/%d obligations discharged (gen %.2fs, total %.2fs)\n", u, ok, n, gen.Seconds(), time.Since(t1).Seconds())
		if verbose {
			for d := range res.Exec.Dropped {
				fmt.Println("  dropped:", d)
			}
		}
	}
	if bad > 0 {
		os.Exit(1)
	}
}

package main

import (
	"encoding/hex"
	"go/types"
	"strconv"
	"strings"
)

// bytesResult: results of type string or []byte can be observed by the post replay.
func bytesResult(t types.Type) bool {
	switch u := t.Underlying().(type) {
	case *types.Basic:
		return u.Info()&types.IsString != 0
	case *types.Slice:
		b, ok := u.Elem().Underlying().(*types.Basic)
		return ok && b.Kind() == types.Uint8
	}
	return false
}

// observedBytes builds the value of a string / []byte result observed on the real code
// ("B<len>:<hex>"): a separate object with exactly those contents (aliasing with the inputs is not
// reproduced, so clauses about samebase/startoff of results are not decided by the replay).
func observedBytes(st *State, rt types.Type, txt string, idx int) Val {
	parts := strings.SplitN(txt[1:], ":", 2)
	n, _ := strconv.Atoi(parts[0])
	var data []byte
	if len(parts) == 2 {
		data, _ = hex.DecodeString(parts[1])
	}
	if _, ok := rt.Underlying().(*types.Basic); ok {
		arr := ConstArr(StrArr, BVI(0, 8))
		for i, b := range data {
			arr = Store(arr, BVI(int64(i), 64), BVI(int64(b), 8))
		}
		return Val{T: rt, C: []*Term{arr, BVI(0, 64), BVI(int64(n), 64)}}
	}
	sl := rt.Underlying().(*types.Slice)
	ref := IntC(int64(7000000 + idx))
	if n == 0 && len(data) == 0 {
		// a nil or empty result: keep it distinguishable as nil only when the clause needs it; use nil
		ref = IntC(0)
	}
	key := elemKey(sl.Elem(), 0)
	rowS := ArraySort(BV64, BVSort(8))
	row := ConstArr(rowS, BVI(0, 8))
	for i, b := range data {
		row = Store(row, BVI(int64(i), 64), BVI(int64(b), 8))
	}
	h := st.heapGet(key, ArraySort(IntSort, rowS))
	st.heapSet(key, Store(h, ref, row))
	return Val{T: rt, C: []*Term{ref, BVI(0, 64), BVI(int64(n), 64), BVI(int64(n), 64)}}
}

package main

// Symbolic values: every first-class Go value is a flat vector of SMT terms whose
// shape is determined by its Go type (see layout). Addresses computed by
// Alloc/FieldAddr/IndexAddr are kept at the meta level (MetaPtr).

import (
	"fmt"
	"go/constant"
	"go/types"
	"math/big"

	"golang.org/x/tools/go/ssa"
)

type PtrKind int

const (
	PLocal  PtrKind = iota // non-escaping Alloc, value lives in State.Allocs
	PField                 // non-struct field FieldIdx of struct object Ref of type Struct
	PCell                  // non-struct heap object (Cell[T]) at Ref
	PElem                  // element Idx (absolute row index) of backing array Ref, element type Elem
	PGlobal                // package-level variable
)

type Step struct {
	Field int   // field index, or -1
	Index *Term // BV64 index, when Field == -1
}

type MetaPtr struct {
	Kind   PtrKind
	Alloc  *ssa.Alloc
	Global *ssa.Global
	Ref    *Term         // PField, PCell, PElem
	Struct *types.Struct // PField: the struct type of the object
	SName  string        // PField: canonical name of the struct type
	Field  int           // PField
	Idx    *Term         // PElem
	Root   types.Type    // type of the root location (Alloc elem / field type / cell type / elem type / global type)
	Path   []Step
	Guard  *Term // optional: nil-check already emitted
	Multi  *multiPtr // PMulti: the alternatives of a conditional pointer
}

type Closure struct {
	Fn       *ssa.Function
	Bindings []Val
}

type Val struct {
	T     types.Type
	C     []*Term
	Ptr   *MetaPtr
	Clo   *Closure
	Alts  []*Closure // a function value that is one of several known plain functions (merged at a join); C[0] is its id
	Tuple []Val
	// Untyped constant (spec language only)
	Const *big.Int
}

func (v Val) IsTuple() bool { return v.Tuple != nil }

func scalar(t types.Type, x *Term) Val { return Val{T: t, C: []*Term{x}} }

var tInt = types.Typ[types.Int]
var tBool = types.Typ[types.Bool]
var tUint8 = types.Typ[types.Uint8]
var tString = types.Typ[types.String]

func boolVal(x *Term) Val { return scalar(tBool, x) }
func intVal(x *Term) Val  { return scalar(tInt, x) }

func (v Val) S() *Term {
	if len(v.C) != 1 {
		panic(fmt.Sprintf("not a scalar: type %v with %d comps", v.T, len(v.C)))
	}
	return v.C[0]
}

// ---- type layout ----

func intWidth(b *types.Basic) (w int, signed bool) {
	switch b.Kind() {
	case types.Int8:
		return 8, true
	case types.Int16:
		return 16, true
	case types.Int32, types.UntypedRune:
		return 32, true
	case types.Int64, types.Int, types.UntypedInt:
		return 64, true
	case types.Uint8:
		return 8, false
	case types.Uint16:
		return 16, false
	case types.Uint32:
		return 32, false
	case types.Uint64, types.Uint, types.Uintptr:
		return 64, false
	}
	return 0, false
}

func isInteger(t types.Type) bool {
	b, ok := t.Underlying().(*types.Basic)
	return ok && b.Info()&types.IsInteger != 0
}
func isSigned(t types.Type) bool {
	b, ok := t.Underlying().(*types.Basic)
	if !ok {
		return false
	}
	_, s := intWidth(b)
	return s
}
func widthOf(t types.Type) int {
	b, ok := t.Underlying().(*types.Basic)
	if !ok {
		return 0
	}
	w, _ := intWidth(b)
	return w
}

var StrArr = ArraySort(BV64, BV8)

var layoutCache = map[types.Type][]*Sort{}

func layout(t types.Type) []*Sort {
	if l, ok := layoutCache[t]; ok {
		return l
	}
	l := layout1(t)
	layoutCache[t] = l
	return l
}

func layout1(t types.Type) []*Sort {
	switch u := t.Underlying().(type) {
	case *types.Basic:
		switch {
		case u.Info()&types.IsBoolean != 0:
			return []*Sort{BoolSort}
		case u.Info()&types.IsInteger != 0:
			w, _ := intWidth(u)
			return []*Sort{BVSort(w)}
		case u.Info()&types.IsString != 0:
			return []*Sort{StrArr, BV64, BV64}
		case u.Info()&types.IsFloat != 0:
			return []*Sort{BV64}
		case u.Kind() == types.UnsafePointer:
			return []*Sort{IntSort}
		case u.Kind() == types.UntypedNil:
			return []*Sort{IntSort}
		}
	case *types.Pointer, *types.Map, *types.Chan, *types.Signature:
		return []*Sort{IntSort}
	case *types.Slice:
		return []*Sort{IntSort, BV64, BV64, BV64}
	case *types.Interface:
		return []*Sort{IntSort, IntSort}
	case *types.Struct:
		var out []*Sort
		for i := 0; i < u.NumFields(); i++ {
			out = append(out, layout(u.Field(i).Type())...)
		}
		return out
	case *types.Array:
		var out []*Sort
		for _, s := range layout(u.Elem()) {
			out = append(out, ArraySort(BV64, s))
		}
		return out
	case *types.Tuple:
		var out []*Sort
		for i := 0; i < u.Len(); i++ {
			out = append(out, layout(u.At(i).Type())...)
		}
		return out
	}
	panic(fmt.Sprintf("layout: unsupported type %v (%T)", t, t.Underlying()))
}

func fieldRange(st *types.Struct, i int) (lo, hi int) {
	for j := 0; j < i; j++ {
		lo += len(layout(st.Field(j).Type()))
	}
	return lo, lo + len(layout(st.Field(i).Type()))
}

func fieldOf(v Val, i int) Val {
	st := v.T.Underlying().(*types.Struct)
	lo, hi := fieldRange(st, i)
	return Val{T: st.Field(i).Type(), C: v.C[lo:hi:hi]}
}

func withField(v Val, i int, f Val) Val {
	st := v.T.Underlying().(*types.Struct)
	lo, hi := fieldRange(st, i)
	nc := make([]*Term, 0, len(v.C))
	nc = append(nc, v.C[:lo]...)
	nc = append(nc, f.C...)
	nc = append(nc, v.C[hi:]...)
	return Val{T: v.T, C: nc}
}

func indexOf(v Val, idx *Term) Val {
	at := v.T.Underlying().(*types.Array)
	nc := make([]*Term, len(v.C))
	for k, c := range v.C {
		nc[k] = Select(c, idx)
	}
	return Val{T: at.Elem(), C: nc}
}

func withIndex(v Val, idx *Term, e Val) Val {
	nc := make([]*Term, len(v.C))
	for k, c := range v.C {
		nc[k] = Store(c, idx, e.C[k])
	}
	return Val{T: v.T, C: nc}
}

func navigate(v Val, path []Step) Val {
	for _, s := range path {
		if s.Field >= 0 {
			v = fieldOf(v, s.Field)
		} else {
			v = indexOf(v, s.Index)
		}
	}
	return v
}

func update(v Val, path []Step, nv Val) Val {
	if len(path) == 0 {
		return Val{T: v.T, C: nv.C, Clo: nv.Clo}
	}
	s := path[0]
	if s.Field >= 0 {
		return withField(v, s.Field, update(fieldOf(v, s.Field), path[1:], nv))
	}
	return withIndex(v, s.Index, update(indexOf(v, s.Index), path[1:], nv))
}

// ---- zero / fresh values ----

func zeroTerm(s *Sort) *Term {
	switch s.Kind {
	case KBool:
		return False
	case KBV:
		return BVI(0, s.W)
	case KInt:
		return IntC(0)
	case KArray:
		return ConstArr(s, zeroTerm(s.Elem))
	}
	panic("zeroTerm")
}

func zeroVal(t types.Type) Val {
	ls := layout(t)
	c := make([]*Term, len(ls))
	for i, s := range ls {
		c[i] = zeroTerm(s)
	}
	return Val{T: t, C: c}
}

func freshVal(prefix string, t types.Type) Val {
	ls := layout(t)
	c := make([]*Term, len(ls))
	for i, s := range ls {
		n := prefix
		if len(ls) > 1 {
			n = fmt.Sprintf("%s.%d", prefix, i)
		}
		c[i] = Fresh(n, s)
	}
	return Val{T: t, C: c}
}

const maxLenBits = 48

var maxLen = BVC(new(big.Int).Lsh(big.NewInt(1), maxLenBits), 64)

// typeInv returns the facts assumed of any well-typed value v of type t
// (slice header sanity, string length bounds). Heap reachability facts are added by the executor.
func typeInv(v Val, depth int) []*Term {
	var out []*Term
	switch u := v.T.Underlying().(type) {
	case *types.Basic:
		if u.Info()&types.IsString != 0 {
			off, ln := v.C[1], v.C[2]
			out = append(out, BVSle(BVI(0, 64), off), BVSle(off, maxLen), BVSle(BVI(0, 64), ln), BVSle(ln, maxLen))
		}
	case *types.Slice:
		ref, off, ln, cp := v.C[0], v.C[1], v.C[2], v.C[3]
		z := BVI(0, 64)
		out = append(out, BVSle(z, off), BVSle(off, maxLen), BVSle(z, ln), BVSle(ln, cp), BVSle(cp, maxLen))
		out = append(out, Implies(Eq(ref, IntC(0)), And(Eq(cp, z), Eq(off, z))))
		out = append(out, IntLe(IntC(0), ref))
	case *types.Struct:
		for i := 0; i < u.NumFields(); i++ {
			out = append(out, typeInv(fieldOf(v, i), depth)...)
		}
	case *types.Pointer, *types.Map, *types.Chan:
		out = append(out, IntLe(IntC(0), v.C[0]))
	case *types.Interface:
		out = append(out, IntLe(IntC(0), v.C[0]))
	case *types.Array:
		// element invariants for arrays of slices/strings are not generated (would need quantifiers)
	}
	return out
}

// ---- constants ----

func constVal(t types.Type, cv constant.Value) Val {
	if cv == nil { // nil of pointer/slice/map/iface/func/chan
		return zeroVal(t)
	}
	switch u := t.Underlying().(type) {
	case *types.Basic:
		switch {
		case u.Info()&types.IsBoolean != 0:
			return scalar(t, BoolC(constant.BoolVal(cv)))
		case u.Info()&types.IsInteger != 0:
			w, _ := intWidth(u)
			bi, ok := constant.Val(constant.ToInt(cv)).(*big.Int)
			if !ok {
				i64, _ := constant.Int64Val(constant.ToInt(cv))
				bi = big.NewInt(i64)
			}
			return scalar(t, BVC(bi, w))
		case u.Info()&types.IsString != 0:
			return stringLit(t, constant.StringVal(cv))
		case u.Info()&types.IsFloat != 0:
			f, _ := constant.Float64Val(cv)
			return scalar(t, App(DeclUF(fmt.Sprintf("float_%v", f), BV64)))
		}
	}
	panic(fmt.Sprintf("constVal: unsupported %v", t))
}

var strLits = map[string]*Term{}

// litAxioms accumulates the defining facts of string literal arrays; they are
// global assumptions of every obligation that mentions the literal.
var litAxioms = map[string][]*Term{}

func stringLit(t types.Type, s string) Val {
	var arr *Term
	if len(s) <= 64 {
		arr = ConstArr(StrArr, BVI(0, 8))
		for i := 0; i < len(s); i++ {
			arr = Store(arr, BVI(int64(i), 64), BVI(int64(s[i]), 8))
		}
	} else {
		name := fmt.Sprintf("strlit!%d", len(strLits))
		if a, ok := strLits[s]; ok {
			arr = a
		} else {
			// long literal: a named array whose bytes are known to the term layer (selects at constant
			// indices fold to the byte); no byte axioms are sent to the solvers, so facts about its
			// contents at symbolic indices are simply not available (incomplete, never unsound)
			arr = Var(name, StrArr)
			strLits[s] = arr
			litBytes[arr] = s
		}
	}
	return Val{T: t, C: []*Term{arr, BVI(0, 64), BVI(int64(len(s)), 64)}}
}

// typeName gives a canonical string for heap keys and tags.
func typeName(t types.Type) string {
	return types.TypeString(t, func(p *types.Package) string { return p.Path() })
}

package main

import (
	"fmt"
	"go/types"
	"sort"
	"strings"
	"sync"
	"time"

	"golang.org/x/tools/go/callgraph"
	"golang.org/x/tools/go/callgraph/cha"
	"golang.org/x/tools/go/ssa"
	"golang.org/x/tools/go/ssa/ssautil"
)

// Unit clause `havoccalls [except T.f, ...]`: a partial contract on a large orchestrating function.
// Every call whose callee has no contract and cannot be inlined (large, has loops, external,
// through an unknown function value or interface) is abstracted as changing the whole heap except
// the named type-level fields. That the abstracted callees really keep those fields is not assumed:
// it is checked on the call graph (class-hierarchy analysis of the whole program): no function
// reachable from an abstracted call may contain a store to the field, a store of a value that
// contains the field's struct, or a copy/append/clear over elements containing it. The result of
// that check is an obligation `keep.<T.f>` of the unit (back end "callgraph"). Reflection and
// unsafe are not tracked (listed as an assumption).

type havocSite struct {
	name   string
	callee *ssa.Function       // nil for invoke / dynamic calls
	instr  ssa.CallInstruction // the call site in the unit (or an inlined callee)
}

// keptField identifies a type-level field kept across abstracted calls.
type keptField struct {
	src    string
	owner  types.Type // the struct type T
	index  int        // field index in T
	keys   []string
}

func (ex *Exec) setupHavocCalls(env *SpecEnv, c *Contract, fn *ssa.Function) {
	if !c.HavocCalls {
		return
	}
	keys := map[string]bool{}
	for _, m := range c.HavocCallsExcept {
		x := m.Expr
		if x.Kind != "select" || x.Args[0].Kind != "ident" || fn.Pkg == nil {
			fail("havoccalls except %s: only type-level fields T.f are supported", m.Src)
		}
		tn, ok := fn.Pkg.Pkg.Scope().Lookup(x.Args[0].Name).(*types.TypeName)
		if !ok || !isStruct(tn.Type()) {
			fail("havoccalls except %s: %s is not a struct type of the package", m.Src, x.Args[0].Name)
		}
		t := tn.Type()
		path := embeddedPath(t, x.Name, 0)
		if len(path) != 1 {
			fail("havoccalls except %s: not a direct field", m.Src)
		}
		ft := t.Underlying().(*types.Struct).Field(path[0]).Type()
		kf := keptField{src: m.Src, owner: t, index: path[0]}
		for k, srt := range layout(ft) {
			key := fldKey(structName(t), path[0], k)
			keySortHint[key] = ArraySort(IntSort, srt)
			keys[key] = true
			kf.keys = append(kf.keys, key)
		}
		ex.Kept = append(ex.Kept, kf)
	}
	ex.HavocCallsC = &Contract{Key: "havoccalls", HavocAll: true, HavocExceptKeys: keys, Trusted: true, Allocates: true, Loops: map[int]*LoopSpec{}}
	ex.AbstractNames = map[string]bool{}
	for _, n := range c.AbstractCalls {
		ex.AbstractNames[n] = true
	}
}

// havocCall abstracts one call: whole-heap havoc except the kept fields, fresh results.
func (fx *fnExec) havocCall(name string, callee *ssa.Function, st *State, rt types.Type) Val {
	ex := fx.ex
	ex.HavocSites = append(ex.HavocSites, havocSite{name: name, callee: callee, instr: fx.curCall})
	except := map[string]bool{}
	for k := range ex.HavocCallsC.HavocExceptKeys {
		except[k] = true
	}
	fx.havocAll(st, except, "havoccalls")
	delete(ex.TrustedUsed, "havocs: havoccalls abstracted as changing the whole heap except its `havocs except` fields")
	ex.Dropped["call abstracted by havoccalls (whole heap havocked except the kept fields; result unconstrained): "+name] = true
	if rt == nil {
		return Val{}
	}
	if tup, ok := rt.(*types.Tuple); ok && tup.Len() == 0 {
		return Val{}
	}
	return fx.freshOf("hvc", rt, st)
}

// ---- call-graph side -------------------------------------------------------------------------

var (
	cgOnce  sync.Once
	cgGraph *callgraph.Graph
	cgAll   map[*ssa.Function]bool
	cgSecs  float64
)

func (l *Loader) callGraph() *callgraph.Graph {
	cgOnce.Do(func() {
		t0 := time.Now()
		cgGraph = cha.CallGraph(l.Prog)
		cgAll = ssautil.AllFunctions(l.Prog)
		cgSecs = time.Since(t0).Seconds()
	})
	return cgGraph
}

// typeContains reports whether a value of type t contains a value of struct type target (by value).
func typeContains(t, target types.Type, depth int) bool {
	if depth > 8 {
		return false
	}
	if types.Identical(t, target) {
		return true
	}
	switch u := t.Underlying().(type) {
	case *types.Struct:
		for i := 0; i < u.NumFields(); i++ {
			if typeContains(u.Field(i).Type(), target, depth+1) {
				return true
			}
		}
	case *types.Array:
		return typeContains(u.Elem(), target, depth+1)
	}
	return false
}

// writesField reports whether fn contains an instruction that may write field index of struct owner.
func writesField(fn *ssa.Function, kf keptField) (bool, string) {
	for _, b := range fn.Blocks {
		for _, in := range b.Instrs {
			switch in := in.(type) {
			case *ssa.Store:
				if storesToFreshObject(in.Addr) {
					continue // initialisation of an object allocated in this function: no existing object is written
				}
				if fa, ok := in.Addr.(*ssa.FieldAddr); ok {
					if pt, ok := fa.X.Type().Underlying().(*types.Pointer); ok && types.Identical(pt.Elem(), kf.owner) && fa.Field == kf.index {
						return true, "store to the field"
					}
					// a store to a field of a struct embedded by value in the kept field's owner is a different key
				}
				if typeContains(in.Val.Type(), kf.owner, 0) {
					return true, "store of a value containing " + typeName(kf.owner)
				}
			case *ssa.Call:
				if bi, ok := in.Call.Value.(*ssa.Builtin); ok {
					switch bi.Name() {
					case "copy", "append", "clear":
						if len(in.Call.Args) > 0 {
							if sl, ok := in.Call.Args[0].Type().Underlying().(*types.Slice); ok && typeContains(sl.Elem(), kf.owner, 0) {
								return true, bi.Name() + " over elements containing " + typeName(kf.owner)
							}
						}
					}
				}
			}
		}
	}
	return false, ""
}

// checkKept emits one obligation per kept field: no function reachable from an abstracted call
// writes it.
func (ex *Exec) checkKept(unit *ssa.Function, prefix string) {
	if ex.HavocCallsC == nil || len(ex.Kept) == 0 {
		return
	}
	g := ex.L.callGraph()
	// roots: static callees of abstracted calls, and for invoke/dynamic sites the CHA edges of the site
	roots := map[*ssa.Function]string{}
	for _, hs := range ex.HavocSites {
		if hs.callee != nil {
			roots[hs.callee] = hs.name
			continue
		}
		if hs.instr == nil {
			continue
		}
		if n := g.Nodes[hs.instr.Parent()]; n != nil {
			for _, e := range n.Out {
				if e.Site == hs.instr {
					roots[e.Callee.Func] = hs.name
				}
			}
		}
	}
	reach := map[*ssa.Function]string{} // function -> abstracted call it is reachable from
	var stack []*ssa.Function
	for f, via := range roots {
		if _, ok := reach[f]; !ok {
			reach[f] = via
			stack = append(stack, f)
		}
	}
	for len(stack) > 0 {
		f := stack[len(stack)-1]
		stack = stack[:len(stack)-1]
		n := g.Nodes[f]
		if n == nil {
			continue
		}
		for _, e := range n.Out {
			if _, ok := reach[e.Callee.Func]; !ok {
				reach[e.Callee.Func] = reach[f]
				stack = append(stack, e.Callee.Func)
			}
		}
		// closures created by f may run later under f's callees: include them
		for _, an := range f.AnonFuncs {
			if _, ok := reach[an]; !ok {
				reach[an] = reach[f]
				stack = append(stack, an)
			}
		}
	}
	for _, kf := range ex.Kept {
		var bad []string
		for f, via := range reach {
			if f.Blocks == nil {
				continue
			}
			if w, how := writesField(f, kf); w {
				bad = append(bad, fmt.Sprintf("%s (%s; reachable from the abstracted call %s)", f.String(), how, via))
			}
		}
		sort.Strings(bad)
		o := &Obl{Name: fmt.Sprintf("%s#keep.%s", prefix, kf.src), Kind: "keep", Unit: ex.Unit, Reach: True, Goal: True,
			Pos: ex.L.posStr(unit.Pos()), Src: "havoccalls except " + kf.src, Solver: "callgraph", Ms: int64(cgSecs * 1000)}
		if len(bad) == 0 {
			o.Status = "discharged"
			o.Output = fmt.Sprintf("no store to %s in the %d functions reachable (class-hierarchy call graph) from the %d abstracted calls", kf.src, len(reach), len(ex.HavocSites))
		} else {
			o.Status = "unknown"
			if len(bad) > 12 {
				bad = append(bad[:12], fmt.Sprintf("... and %d more", len(bad)-12))
			}
			o.Output = "the kept field may be written by: " + strings.Join(bad, "; ")
		}
		ex.Obls = append(ex.Obls, o)
	}
	ex.Dropped["havoccalls: kept fields are checked on the class-hierarchy call graph; writes through reflection or unsafe are not tracked"] = true
}

// tryInline executes the body of an uncontracted callee of a `havoccalls` unit; when the body is
// outside the supported subset everything it did is rolled back and ok is false.
func (fx *fnExec) tryInline(callee *ssa.Function, args []Val, st *State) (v Val, ok bool) {
	ex := fx.ex
	saved := st.clone()
	nO, nA, nS, depth := len(ex.Obls), len(ex.Assume), len(ex.HavocSites), ex.depth
	stack := append([]*ssa.Function{}, ex.stack...)
	defer func() {
		if r := recover(); r != nil {
			if _, is := r.(*EngineError); !is {
				panic(r)
			}
			ex.Obls, ex.Assume, ex.HavocSites = ex.Obls[:nO], ex.Assume[:nA], ex.HavocSites[:nS]
			ex.depth, ex.stack = depth, stack
			*st = *saved
			ok = false
		}
	}()
	rv, out := ex.runFunc(callee, args, nil, st, false, nil)
	*st = *out
	return rv, true
}

// storesToFreshObject: the address is (a field or element chain of) an object allocated by `new` or a
// composite literal in the same function.
func storesToFreshObject(addr ssa.Value) bool {
	for i := 0; i < 6; i++ {
		switch a := addr.(type) {
		case *ssa.Alloc:
			return a.Heap
		case *ssa.FieldAddr:
			addr = a.X
		case *ssa.IndexAddr:
			if _, isPtr := a.X.Type().Underlying().(*types.Pointer); !isPtr {
				return false // element of a slice: the backing array may be shared
			}
			addr = a.X
		default:
			return false
		}
	}
	return false
}

package main

import (
	"fmt"
	"go/types"

	"golang.org/x/tools/go/ssa"
)

// applyUses adds, for every lemma named by a `uses` clause, the assumption
//
//	forall params :: requires ==> ensures
//
// restricted to the lemma's spec-level ensures clauses (clauses that mention the harness result
// cannot be stated without running the body and are skipped). The lemma itself must be one of the
// property's units, where it is proved; the check driver verifies that.
func (ex *Exec) applyUses(c *Contract, fn *ssa.Function, st *State) {
	for _, name := range c.Uses {
		pkgPath := pkgPathOf(fn)
		lf := ex.L.findFunc(pkgPath, name)
		if lf == nil {
			fail("uses %s: lemma not found in %s", name, pkgPath)
		}
		lc := ex.L.contractFor(lf)
		if lc == nil || !lc.Lemma {
			fail("uses %s: not a lemma", name)
		}
		env := &SpecEnv{ex: ex, st: st, old: st, vars: map[string]Val{}, fn: lf}
		var bound []*Term
		for i, p := range lf.Params {
			ls := layout(p.Type())
			if len(ls) != 1 || ls[0].Kind == KArray {
				fail("uses %s: parameter %s is not a scalar", name, p.Name())
			}
			bv := Fresh("u_"+p.Name(), ls[0])
			bound = append(bound, bv)
			n := p.Name()
			if i < len(lc.Params) {
				n = lc.Params[i]
			}
			env.vars[n] = scalar(p.Type(), bv)
		}
		var req, ens []*Term
		for _, cl := range lc.Requires {
			req = append(req, env.evalBool(cl))
		}
		used := 0
		for _, cl := range lc.Ensures {
			t, ok := tryEvalBool(env, cl)
			if !ok {
				continue
			}
			ens = append(ens, t)
			used++
		}
		if used == 0 {
			fail("uses %s: the lemma has no spec-level ensures clause", name)
		}
		ex.Assume = append(ex.Assume, Forall(bound, Implies(And(req...), And(ens...))))
		ex.UsedLemmas = append(ex.UsedLemmas, name)
	}
}

func tryEvalBool(env *SpecEnv, cl Clause) (t *Term, ok bool) {
	defer func() {
		if r := recover(); r != nil {
			if _, isEE := r.(*EngineError); isEE {
				ok = false
				return
			}
			panic(r)
		}
	}()
	return env.evalBool(cl), true
}

// hiddenGlobal gives a package-level variable hidden by a `hide` clause an unknown but fixed value.
func (ex *Exec) hiddenGlobal(g *ssa.Global) *Val {
	t := g.Type().(*types.Pointer).Elem()
	ls := layout(t)
	c := make([]*Term, len(ls))
	for k, s := range ls {
		c[k] = Var(fmt.Sprintf("hidden:%s.%s#%d", g.Pkg.Pkg.Path(), g.Name(), k), s)
	}
	v := Val{T: t, C: c}
	ex.Dropped["contents of "+g.Name()+" hidden in this unit (only the facts of the `uses` lemmas are available)"] = true
	return &v
}

package main

import "strings"

// baseOblName strips the path-copy suffix `~N` of an obligation name.
func baseOblName(n string) string {
	if i := strings.LastIndex(n, "~"); i > 0 {
		digits := n[i+1:]
		if digits != "" && strings.Trim(digits, "0123456789") == "" {
			return n[:i]
		}
	}
	return n
}

package main

import (
	"go/token"
)

// tryMaterialize turns a meta-level pointer into a first-class reference when the location has one.
func (fx *fnExec) tryMaterialize(v Val) (Val, bool) {
	if v.Ptr == nil || len(v.C) == 1 {
		return v, true
	}
	mp := fx.ex.resolve(v.Ptr)
	switch mp.Kind {
	case PObj, PArr, PCell:
		if len(mp.Path) == 0 {
			return Val{T: v.T, C: []*Term{mp.Ref}}, true
		}
	case PElem:
		if len(mp.Path) == 0 && isStruct(mp.Root) {
			return Val{T: v.T, C: []*Term{fx.ex.elemHandle(mp)}}, true
		}
	}
	return v, false
}

// softMaterializeArgs materialises what can be; interior pointers (into slice elements, local
// values, scalar fields) stay at the meta level. A callee contract is then evaluated directly on the
// interior location: this relies on Go code being independent of where a struct value is stored.
func (fx *fnExec) softMaterializeArgs(args []Val) []Val {
	out := make([]Val, len(args))
	for i, a := range args {
		if a.Ptr != nil {
			if m, ok := fx.tryMaterialize(a); ok {
				a = m
			} else {
				fx.ex.Dropped["contract of a callee applied to an interior location (element of a slice/array or field of a local)"] = true
			}
		}
		out[i] = a
	}
	return out
}

func stepsEq(a, b []Step) (*Term, bool) {
	if len(a) != len(b) {
		return False, true
	}
	conj := []*Term{}
	for i := range a {
		if (a[i].Field >= 0) != (b[i].Field >= 0) {
			return False, true
		}
		if a[i].Field >= 0 {
			if a[i].Field != b[i].Field {
				return False, true
			}
			continue
		}
		conj = append(conj, Eq(a[i].Index, b[i].Index))
	}
	return And(conj...), true
}

// metaPtrEq compares pointers of which at least one is an interior (meta-level) pointer.
// ok is false when the comparison cannot be decided structurally.
func (fx *fnExec) metaPtrEq(x, y Val) (eq *Term, ok bool) {
	if isNilLikeConst(y) {
		x, y = y, x
	}
	if isNilLikeConst(x) {
		if y.Ptr != nil {
			if m, isFirst := fx.tryMaterialize(y); isFirst {
				return Eq(m.C[0], IntC(0)), true
			}
			return False, true // an interior location is never nil
		}
		return nil, false
	}
	if x.Ptr == nil || y.Ptr == nil {
		// one first-class, one interior: a first-class struct reference never equals an interior location
		var first, inner Val
		if x.Ptr == nil {
			first, inner = x, y
		} else {
			first, inner = y, x
		}
		if m, isFirst := fx.tryMaterialize(inner); isFirst {
			return Eq(first.C[0], m.C[0]), true
		}
		return nil, false
	}
	a, b := fx.ex.resolve(x.Ptr), fx.ex.resolve(y.Ptr)
	if a.Kind != b.Kind {
		return False, true
	}
	pe, _ := stepsEq(a.Path, b.Path)
	switch a.Kind {
	case PLocal:
		if a.Alloc != b.Alloc {
			return False, true
		}
		return pe, true
	case PGlobal:
		if a.Global != b.Global {
			return False, true
		}
		return pe, true
	case PElem:
		if typeName(a.Root) != typeName(b.Root) {
			return False, true
		}
		return And(Eq(a.Ref, b.Ref), Eq(a.Idx, b.Idx), pe), true
	case PField:
		if a.SName != b.SName || a.Field != b.Field {
			return False, true
		}
		return And(Eq(a.Ref, b.Ref), pe), true
	case PObj, PArr, PCell:
		return And(Eq(a.Ref, b.Ref), pe), true
	}
	return nil, false
}

func isNilLikeConst(v Val) bool {
	if v.Ptr != nil || v.T == nil || len(v.C) != 1 {
		return false
	}
	return v.C[0].IsConst() && v.C[0].Sort == IntSort && v.C[0].Val.Sign() == 0
}

var _ token.Pos

package main

import (
	"fmt"
	"os"
	"runtime"
)

var debugWF = os.Getenv("GOVC_DEBUG_WF") != ""

// debugEvals evaluates the spec expressions of GOVC_EVAL (separated by ';') in env; their values are
// added to the model printed for a failed obligation (development aid).
func debugEvals(env *SpecEnv) []NamedVal {
	src := os.Getenv("GOVC_EVAL")
	if src == "" {
		return nil
	}
	var out []NamedVal
	for _, part := range splitSemis(src) {
		func() {
			defer func() { recover() }()
			e, err := ParseSpecExpr(part)
			if err != nil {
				return
			}
			v := env.eval(e)
			out = append(out, NamedVal{Name: "eval[" + part + "]", V: v})
		}()
	}
	return out
}

func splitSemis(s string) []string {
	var out []string
	cur := ""
	for _, c := range s {
		if c == ';' {
			if cur != "" {
				out = append(out, cur)
			}
			cur = ""
			continue
		}
		cur += string(c)
	}
	if cur != "" {
		out = append(out, cur)
	}
	return out
}

var debugInst = os.Getenv("GOVC_DEBUG_INST") != ""

// instRounds: rounds of engine-side quantifier instantiation (GOVC_INST_ROUNDS overrides).
var instRounds = func() int {
	if v := os.Getenv("GOVC_INST_ROUNDS"); v != "" {
		n := 0
		for _, c := range v {
			n = n*10 + int(c-'0')
		}
		if n > 0 {
			return n
		}
	}
	return 2
}()

var debugKey = os.Getenv("GOVC_DEBUG_KEY")

func shortStack() string {
	pc := make([]uintptr, 12)
	n := runtime.Callers(3, pc)
	fr := runtime.CallersFrames(pc[:n])
	out := ""
	for {
		f, more := fr.Next()
		out += fmt.Sprintf("    %s:%d\n", f.Function, f.Line)
		if !more {
			break
		}
	}
	return out
}

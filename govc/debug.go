package main

import "os"

var debugWF = os.Getenv("GOVC_DEBUG_WF") != ""

package main

// sameMetaPtr: two meta pointers denote the same location by construction (identical terms).
func sameMetaPtr(a, b *MetaPtr) bool {
	if a.Kind != b.Kind || a.Alloc != b.Alloc || a.Global != b.Global || a.Ref != b.Ref ||
		a.SName != b.SName || a.Field != b.Field || a.Idx != b.Idx || a.Multi != b.Multi || len(a.Path) != len(b.Path) {
		return false
	}
	if a.Kind == PMulti {
		return false
	}
	for i := range a.Path {
		if a.Path[i].Field != b.Path[i].Field || a.Path[i].Index != b.Path[i].Index {
			return false
		}
	}
	return true
}

#!/bin/sh
# usage: seedcheck.sh <worktree> <property id> <seed name> <pkg dir> <demo test regexp>
# Confirms a seeded change (demo fails with it, passes without it, package suite passes with it),
# then applies it to /repo, runs the property's quick check and undoes it.
wt=$1; id=$2; name=$3; pkg=$4; demo=$5
export GOFLAGS=-mod=mod GOPROXY=off
mkdir -p /verif/seeded/$name
cp $wt/SEED/* /verif/seeded/$name/ 2>/dev/null
cd $wt || exit 2
echo "== demo WITH change (expect FAIL)"
go test -vet=off -count=1 -run "$demo" ./$pkg/ 2>&1 | tail -3
echo "== suite WITH change, demo excluded (expect ok)"
go test -vet=off -count=1 -skip "$demo" ./$pkg/ 2>&1 | tail -2
git stash push -q -- $(git diff --name-only | grep -v verif_contracts.go)
echo "== demo WITHOUT change (expect ok)"
go test -vet=off -count=1 -run "$demo" ./$pkg/ 2>&1 | tail -2
git stash pop -q
echo "== property check on /repo WITH change"
git -C /repo apply /verif/seeded/$name/patch.diff || exit 3
cd /verif && ./check $id | grep -v KNOWN-FINDING | cut -c1-220
git -C /repo apply -R /verif/seeded/$name/patch.diff
git -C /repo status --short | head -3
